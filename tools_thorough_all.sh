#!/usr/bin/env bash
cd /verif
for id in "$@"; do
  start=$(date +%s)
  out=$(./check "$id" thorough 2>&1); code=$?
  echo "THOROUGH $id exit $code in $(( $(date +%s) - start ))s"
  echo "$out" | grep -E 'VIOLATION|INCONCLUSIVE|KNOWN|thorough:' | cut -c1-300
done
