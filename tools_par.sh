#!/usr/bin/env bash
# tools_par.sh <mode> <ID> <V>
#   mode = validate : in the sub-agent's worktree $WT_BASE/<ID>: suite passes with the patch, demo fails with it, passes without
#   mode = arrival|now : scratch copy — a fresh worktree of /repo with the patch applied, a copy of the harness sources
#          ($VSRC/harness; arrival: a worktree of /verif at the commit before the round; now: /verif), built in a scratch
#          target dir seeded from /verif/target/checked, the owning quick check run with VERIF_ROOT in the scratch dir.
#   Never touches /repo's or /verif's working trees, so several can run at once. Prints one result line.
set -u
MODE="$1"; ID="$2"; V="$3"
BASE="${WT_BASE:-/tmp/wt9}"; S0="$BASE/$ID/SEEDED/$V"
export CARGO_NET_OFFLINE=true
if [ "$MODE" = validate ]; then
  cd "$BASE/$ID" && git checkout -q -- . && mkdir -p tests && cp "$S0/demo.rs" tests/seeded_demo_$V.rs
  cargo test --offline --test seeded_demo_$V > "$BASE/$ID-$V-demo-clean.log" 2>&1; dc=$?
  git apply "$S0/patch.diff" || { echo "$ID-$V validate: patch does not apply"; rm -f tests/seeded_demo_$V.rs; exit 2; }
  cargo test --offline --test seeded_demo_$V > "$BASE/$ID-$V-demo-patched.log" 2>&1; dp=$?
  rm -f tests/seeded_demo_$V.rs
  cargo test --offline --workspace --no-fail-fast > "$BASE/$ID-$V-suite.log" 2>&1; su=$?
  git checkout -q -- . ; git clean -fdq tests 2>/dev/null
  ok=VALID; { [ $su -ne 0 ] || [ $dc -ne 0 ] || [ $dp -eq 0 ]; } && ok=NOT-VALID
  echo "$ID-$V validate: suite_with_patch=$su demo_clean=$dc demo_patched=$dp $ok"
  exit 0
fi
VSRC="${VSRC:-/verif}"
S="/tmp/ev/$ID-$V-$MODE"; rm -rf "$S"; mkdir -p "$S/vr"
git -C /repo worktree add -q --detach "$S/repo" HEAD || exit 2
(cd "$S/repo" && git apply "$S0/patch.diff") || { echo "$ID-$V $MODE: patch does not apply"; git -C /repo worktree remove --force "$S/repo"; exit 2; }
rsync -a --exclude target "$VSRC/harness/" "$S/harness/"
sed -i "s#path = \"/repo\"#path = \"$S/repo\"#" "$S/harness/Cargo.toml"
cp -a "$VSRC/replays" "$S/vr/replays" 2>/dev/null; rm -rf "$S"/vr/replays/*/found
cp "$VSRC/known_findings.json" "$S/vr/"
mkdir -p "$S/target"; cp -a /verif/target/checked "$S/target/checked" 2>/dev/null
if ! (cd "$S/harness" && CARGO_TARGET_DIR="$S/target" cargo build --offline --profile checked > "$S/build.log" 2>&1); then
  echo "$ID-$V $MODE: harness build failed"; tail -5 "$S/build.log"
else
  start=$(date +%s)
  (cd "$S" && VERIF_ROOT="$S/vr" "$S/target/checked/svcheck" check "$ID" --tier quick > "$S/check.log" 2>&1); code=$?
  secs=$(( $(date +%s) - start ))
  first=$(grep -m1 -A1 '^VIOLATION' "$S/check.log" | tail -1 | cut -c1-170)
  echo "$ID-$V $MODE: exit=$code ${secs}s $first"
  cp "$S/check.log" "$BASE/$ID-$V-check-$MODE.log"
fi
git -C /repo worktree remove --force "$S/repo"; rm -rf "$S"
