#!/usr/bin/env bash
# Offline build of the verification harness (MANIFEST.setup_cmd). Everything comes from
# files on disk: /repo, the cargo registry cache and /verif itself.
set -eu
cd "$(dirname "$0")"
export CARGO_NET_OFFLINE=true
mkdir -p target evidence
(cd harness && cargo build --profile checked)
echo "setup ok"
