#!/usr/bin/env bash
# Offline build of the verification harness (MANIFEST.setup_cmd). Everything comes from
# files on disk: /repo, the cargo registry cache and /verif itself.
set -eu
cd "$(dirname "$0")"
export CARGO_NET_OFFLINE=true
mkdir -p target evidence
(cd harness && cargo build --profile checked)
# AddressSanitizer build of the same program (C07 quick runs its workers in it)
(cd harness && RUSTFLAGS="-Zsanitizer=address" cargo +nightly build --profile checked --target x86_64-unknown-linux-gnu --target-dir /verif/target/asan)
echo "setup ok"
