//! Object-safe façade over `Sodg<N>` for every N in 1..=16, so that the edge capacity
//! can be a run-time value of the generators. Only the public API of the crate and
//! the `verif_snapshot()` hook are used.

use anyhow::{anyhow, Result};
use sodg::{Hex, Label, Script, Sodg, VerifSnapshot};
use std::any::Any;
use std::path::Path;

pub trait G: Any {
    fn n(&self) -> usize;
    fn add(&mut self, v: usize);
    fn bind(&mut self, a: usize, b: usize, l: Label);
    fn put(&mut self, v: usize, d: &Hex);
    fn data(&mut self, v: usize) -> Option<Hex>;
    fn kids(&self, v: usize) -> Vec<(Label, usize)>;
    fn kid(&self, v: usize, l: Label) -> Option<usize>;
    fn next_id(&mut self) -> usize;
    fn keys(&self) -> Vec<usize>;
    fn len(&self) -> usize;
    fn is_empty(&self) -> bool;
    fn clone_box(&self) -> Box<dyn G>;
    /// `self.clone_from(src)` (Clone::clone_from), src of the same N
    fn clone_from_dyn(&mut self, src: &dyn G) -> Result<()>;
    fn save(&self, p: &Path) -> Result<usize>;
    fn load_same(&self, p: &Path) -> Result<Box<dyn G>>;
    fn slice(&self, v: usize) -> Result<Box<dyn G>>;
    fn slice_some(&self, v: usize, p: &dyn Fn(usize, usize, Label) -> bool) -> Result<Box<dyn G>>;
    fn merge(&mut self, h: &dyn G, left: usize, right: usize) -> Result<()>;
    fn inspect(&self, v: usize) -> Result<String>;
    fn v_print(&self, v: usize) -> Result<String>;
    fn debug(&self) -> String;
    fn display(&self) -> String;
    /// `{:#?}` and `{:#}`
    fn debug_alt(&self) -> (String, String);
    fn to_xml(&self) -> Result<String>;
    fn to_dot(&self) -> String;
    fn deploy(&mut self, script: &str) -> Result<usize>;
    /// deploy a Script object that lives on between deployments (its variables too)
    fn deploy_obj(&mut self, script: &mut Script) -> Result<usize>;
    fn snapshot(&self) -> VerifSnapshot;
    fn as_any(&self) -> &dyn Any;
}

impl<const N: usize> G for Sodg<N> {
    fn n(&self) -> usize {
        N
    }
    fn add(&mut self, v: usize) {
        Sodg::add(self, v)
    }
    fn bind(&mut self, a: usize, b: usize, l: Label) {
        Sodg::bind(self, a, b, l)
    }
    fn put(&mut self, v: usize, d: &Hex) {
        Sodg::put(self, v, d)
    }
    fn data(&mut self, v: usize) -> Option<Hex> {
        Sodg::data(self, v)
    }
    fn kids(&self, v: usize) -> Vec<(Label, usize)> {
        Sodg::kids(self, v).map(|(a, t)| (*a, *t)).collect()
    }
    fn kid(&self, v: usize, l: Label) -> Option<usize> {
        Sodg::kid(self, v, l)
    }
    fn next_id(&mut self) -> usize {
        Sodg::next_id(self)
    }
    fn keys(&self) -> Vec<usize> {
        Sodg::keys(self)
    }
    fn len(&self) -> usize {
        Sodg::len(self)
    }
    fn is_empty(&self) -> bool {
        Sodg::is_empty(self)
    }
    fn clone_box(&self) -> Box<dyn G> {
        Box::new(Clone::clone(self))
    }
    fn clone_from_dyn(&mut self, src: &dyn G) -> Result<()> {
        let other = src
            .as_any()
            .downcast_ref::<Sodg<N>>()
            .ok_or_else(|| anyhow!("harness: clone_from of graphs with different N"))?;
        Clone::clone_from(self, other);
        Ok(())
    }
    fn save(&self, p: &Path) -> Result<usize> {
        Sodg::save(self, p)
    }
    fn load_same(&self, p: &Path) -> Result<Box<dyn G>> {
        Ok(Box::new(Sodg::<N>::load(p)?))
    }
    fn slice(&self, v: usize) -> Result<Box<dyn G>> {
        Ok(Box::new(Sodg::slice(self, v)?))
    }
    fn slice_some(&self, v: usize, p: &dyn Fn(usize, usize, Label) -> bool) -> Result<Box<dyn G>> {
        Ok(Box::new(Sodg::slice_some(self, v, |a, b, l| p(a, b, l))?))
    }
    fn merge(&mut self, h: &dyn G, left: usize, right: usize) -> Result<()> {
        let other = h
            .as_any()
            .downcast_ref::<Sodg<N>>()
            .ok_or_else(|| anyhow!("harness: merge of graphs with different N"))?;
        Sodg::merge(self, other, left, right)
    }
    fn inspect(&self, v: usize) -> Result<String> {
        Sodg::inspect(self, v)
    }
    fn v_print(&self, v: usize) -> Result<String> {
        Sodg::v_print(self, v)
    }
    fn debug(&self) -> String {
        format!("{self:?}")
    }
    fn display(&self) -> String {
        format!("{self}")
    }
    fn debug_alt(&self) -> (String, String) {
        (format!("{self:#?}"), format!("{self:#}"))
    }
    fn to_xml(&self) -> Result<String> {
        Sodg::to_xml(self)
    }
    fn to_dot(&self) -> String {
        Sodg::to_dot(self)
    }
    fn deploy(&mut self, script: &str) -> Result<usize> {
        Script::from_str(script).deploy_to(self)
    }
    fn deploy_obj(&mut self, script: &mut Script) -> Result<usize> {
        script.deploy_to(self)
    }
    fn snapshot(&self) -> VerifSnapshot {
        Sodg::verif_snapshot(self)
    }
    fn as_any(&self) -> &dyn Any {
        self
    }
}

macro_rules! dispatch_n {
    ($n:expr, $f:ident, $($arg:expr),*) => {
        match $n {
            1 => $f::<1>($($arg),*),
            2 => $f::<2>($($arg),*),
            3 => $f::<3>($($arg),*),
            4 => $f::<4>($($arg),*),
            5 => $f::<5>($($arg),*),
            6 => $f::<6>($($arg),*),
            7 => $f::<7>($($arg),*),
            8 => $f::<8>($($arg),*),
            9 => $f::<9>($($arg),*),
            10 => $f::<10>($($arg),*),
            11 => $f::<11>($($arg),*),
            12 => $f::<12>($($arg),*),
            13 => $f::<13>($($arg),*),
            14 => $f::<14>($($arg),*),
            15 => $f::<15>($($arg),*),
            16 => $f::<16>($($arg),*),
            17 => $f::<17>($($arg),*),
            32 => $f::<32>($($arg),*),
            _ => panic!("harness: unsupported N"),
        }
    };
}

fn mk<const N: usize>(cap: usize) -> Box<dyn G> {
    Box::new(Sodg::<N>::empty(cap))
}

fn ld<const N: usize>(p: &Path) -> Result<Box<dyn G>> {
    Ok(Box::new(Sodg::<N>::load(p)?))
}

/// `Sodg::<n>::empty(cap)`
pub fn new_graph(n: usize, cap: usize) -> Box<dyn G> {
    dispatch_n!(n, mk, cap)
}

/// `Sodg::<n>::load(path)`
pub fn load_graph(n: usize, p: &Path) -> Result<Box<dyn G>> {
    dispatch_n!(n, ld, p)
}

pub fn hex_of(bytes: &[u8]) -> Hex {
    Hex::from_slice(bytes)
}

/// The datum handed to put(): the same bytes in a representation chosen by the bytes
/// themselves (a pure function of the call): canonical, heap `Vector` even when short,
/// inline array with non-zero padding, or built through from_vec.
pub fn hex_arg(bytes: &[u8]) -> Hex {
    let sel = bytes.iter().fold(bytes.len(), |a, b| a.wrapping_mul(31).wrapping_add(*b as usize)) % 5;
    match sel {
        0 => Hex::Vector(bytes.to_vec()),
        1 if bytes.len() <= 8 => {
            let mut a = [0xEEu8; 8];
            a[..bytes.len()].copy_from_slice(bytes);
            Hex::Bytes(a, bytes.len())
        }
        2 => Hex::from_vec(bytes.to_vec()),
        _ => Hex::from_slice(bytes),
    }
}
