//! Generic campaign machinery: drives a proptest strategy case by case from a fixed
//! seed (all randomness comes from proptest's generators), counts and classifies the
//! cases, shrinks the first unknown failure (proptest value tree, then engine-level
//! delta debugging on the concrete case) and produces a library-independent replay.

use crate::engine::Failure;
use proptest::strategy::{BoxedStrategy, Strategy, ValueTree};
use proptest::test_runner::{Config, RngAlgorithm, TestRng, TestRunner};
use serde::{Deserialize, Serialize};
use serde_json::Value;
use std::collections::{BTreeMap, BTreeSet};
use std::io::{Seek, SeekFrom, Write};
use std::path::{Path, PathBuf};

#[derive(Debug, Clone, Copy, PartialEq, Eq, Serialize, Deserialize)]
pub enum Tier {
    Quick,
    Thorough,
}

impl Tier {
    pub fn name(self) -> &'static str {
        match self {
            Tier::Quick => "quick",
            Tier::Thorough => "thorough",
        }
    }
}

/// What one executed case reports.
#[derive(Debug, Clone, Default)]
pub struct CaseReport {
    pub failure: Option<Failure>,
    /// concrete, generator-independent reproduction (present when failure is)
    pub payload: Option<Value>,
    pub nontrivial: bool,
    pub hash: u64,
    pub events: Vec<&'static str>,
    pub counters: Vec<(&'static str, u64)>,
    /// how many evaluations of the oracle this case stands for (default 1)
    pub evaluations: u64,
    /// failures inside this case that match an OPEN known finding (signature, detail); the
    /// engine went on past them
    pub known: Vec<(String, String)>,
    /// distinct non-trivial sub-cases inside this case (hashes), for enumerating engines
    pub sub_hashes: Vec<u64>,
    /// when this (non-trivial, distinct) case stands for `weight` distinct sub-cases that are
    /// distinct by construction (e.g. all prefix lengths of one image); 0 = 1
    pub weight: u64,
}

pub trait Engine {
    type Case: Clone + std::fmt::Debug + Serialize + for<'de> Deserialize<'de>;
    fn name(&self) -> &'static str;
    fn strategy(&self, tier: Tier) -> BoxedStrategy<Self::Case>;
    fn run(&self, case: &Self::Case) -> CaseReport;
    /// readable rendering of a case for evidence samples
    fn render(&self, case: &Self::Case) -> Value;
    /// engine-level minimisation of a concrete payload, keeping `same(failure)` true
    fn minimise(&self, payload: Value, _kind: &str) -> Value {
        payload
    }
    /// re-run a concrete payload without any generator
    fn replay(&self, payload: &Value) -> Option<Failure>;
}

#[derive(Debug, Clone, Serialize, Deserialize)]
pub struct Found {
    pub failure: Failure,
    pub engine: String,
    pub payload: Value,
    pub shrink_runs: u64,
    /// "concrete" (generator-independent payload) or "case" (generator-level value)
    #[serde(default)]
    pub level: String,
}

#[derive(Debug, Clone, Default, Serialize, Deserialize)]
pub struct WorkerReport {
    pub engine: String,
    pub evaluations: u64,
    pub cases: u64,
    pub nontrivial_hashes: BTreeSet<u64>,
    pub events: BTreeMap<String, u64>,
    pub counters: BTreeMap<String, u64>,
    pub samples: Vec<Value>,
    pub found: Vec<Found>,
    /// open known findings that were hit: signature -> count
    pub known_hits: BTreeMap<String, u64>,
    pub known_examples: BTreeMap<String, String>,
    pub exhaustive: bool,
    pub notes: Vec<String>,
    /// additional distinct non-trivial sub-cases counted by weight (see CaseReport::weight)
    #[serde(default)]
    pub distinct_extra: u64,
}

impl WorkerReport {
    pub fn merge(&mut self, o: WorkerReport) {
        self.evaluations += o.evaluations;
        self.cases += o.cases;
        self.nontrivial_hashes.extend(o.nontrivial_hashes);
        for (k, v) in o.events {
            *self.events.entry(k).or_insert(0) += v;
        }
        for (k, v) in o.counters {
            *self.counters.entry(k).or_insert(0) += v;
        }
        for s in o.samples {
            if self.samples.len() < 6 {
                self.samples.push(s);
            }
        }
        self.found.extend(o.found);
        for (k, v) in o.known_hits {
            *self.known_hits.entry(k).or_insert(0) += v;
        }
        for (k, v) in o.known_examples {
            self.known_examples.entry(k).or_insert(v);
        }
        self.exhaustive = self.exhaustive || o.exhaustive;
        self.notes.extend(o.notes);
        self.distinct_extra += o.distinct_extra;
    }
}

pub fn seed32(verif_seed: u64, tag: &str, worker: u64) -> [u8; 32] {
    // simple, fixed mixing (FNV-1a over the inputs, expanded with splitmix64)
    let mut h: u64 = 0xcbf2_9ce4_8422_2325;
    for b in verif_seed
        .to_le_bytes()
        .iter()
        .chain(tag.as_bytes())
        .chain(worker.to_le_bytes().iter())
    {
        h ^= u64::from(*b);
        h = h.wrapping_mul(0x0000_0100_0000_01b3);
    }
    let mut out = [0u8; 32];
    let mut x = h;
    for i in 0..4 {
        x = x.wrapping_add(0x9e37_79b9_7f4a_7c15);
        let mut z = x;
        z = (z ^ (z >> 30)).wrapping_mul(0xbf58_476d_1ce4_e5b9);
        z = (z ^ (z >> 27)).wrapping_mul(0x94d0_49bb_1331_11eb);
        z ^= z >> 31;
        out[i * 8..i * 8 + 8].copy_from_slice(&z.to_le_bytes());
    }
    out
}

/// Seconds since the epoch at which the current case started (0 = idle); read by the
/// worker's watchdog thread.
pub static CASE_STARTED: std::sync::atomic::AtomicU64 = std::sync::atomic::AtomicU64::new(0);

fn now_s() -> u64 {
    std::time::SystemTime::now().duration_since(std::time::UNIX_EPOCH).map_or(0, |d| d.as_secs())
}

/// Start a thread that ends the process with exit code 42 when one case runs longer than
/// `limit_s` (only the two termination properties turn that into a violation).
pub fn start_watchdog(limit_s: u64) {
    std::thread::spawn(move || loop {
        std::thread::sleep(std::time::Duration::from_millis(500));
        let t = CASE_STARTED.load(std::sync::atomic::Ordering::Relaxed);
        if t != 0 && now_s().saturating_sub(t) > limit_s {
            std::process::exit(42);
        }
    });
}

/// Long cases that are long by design (bounded-exhaustive enumerations) report progress so
/// that the per-case watchdog only fires on a call that really does not return.
pub fn touch() {
    CASE_STARTED.store(now_s(), std::sync::atomic::Ordering::Relaxed);
}

pub struct InFlight {
    f: Option<std::fs::File>,
}

impl InFlight {
    pub fn new(path: Option<&Path>) -> Self {
        Self { f: path.and_then(|p| std::fs::File::create(p).ok()) }
    }
    pub fn set(&mut self, engine: &str, case: &impl Serialize) {
        if let Some(f) = &mut self.f {
            let s = serde_json::json!({ "engine": engine, "case": case }).to_string();
            let _ = f.seek(SeekFrom::Start(0));
            let _ = f.write_all(s.as_bytes());
            let _ = f.set_len(s.len() as u64);
        }
    }
    pub fn clear(&mut self) {
        if let Some(f) = &mut self.f {
            let _ = f.set_len(0);
        }
    }
}

pub struct Known {
    /// signatures (failure kinds) of OPEN known findings for this property
    pub open: BTreeMap<String, String>,
}

impl Known {
    pub fn load(prop: &str) -> Self {
        let mut open = BTreeMap::new();
        let p = verif_root().join("known_findings.json");
        if let Ok(txt) = std::fs::read_to_string(&p) {
            if let Ok(Value::Array(a)) = serde_json::from_str::<Value>(&txt) {
                for e in a {
                    if e["property"].as_str() == Some(prop) && e["status"].as_str() == Some("open") {
                        if let Some(sig) = e["signature"].as_str() {
                            open.insert(sig.to_string(), e["what"].as_str().unwrap_or("").to_string());
                        }
                    }
                }
            }
        }
        Self { open }
    }
}

pub fn verif_root() -> PathBuf {
    std::env::var("VERIF_ROOT").map_or_else(|_| PathBuf::from("/verif"), PathBuf::from)
}

/// Run `cases` generated cases of engine `e` in this process.
pub fn campaign<E: Engine>(
    e: &E,
    tier: Tier,
    seed: [u8; 32],
    cases: u64,
    known: &Known,
    inflight: &mut InFlight,
    max_shrink: u64,
) -> WorkerReport {
    let mut rep = WorkerReport { engine: e.name().to_string(), ..Default::default() };
    let mut runner = TestRunner::new_with_rng(
        Config { failure_persistence: None, ..Config::default() },
        TestRng::from_seed(RngAlgorithm::ChaCha, &seed),
    );
    let strat = e.strategy(tier);
    for _ in 0..cases {
        let mut tree = match strat.new_tree(&mut runner) {
            Ok(t) => t,
            Err(r) => {
                rep.notes.push(format!("generator rejected a case: {r}"));
                continue;
            }
        };
        let case = tree.current();
        inflight.set(e.name(), &case);
        CASE_STARTED.store(now_s(), std::sync::atomic::Ordering::Relaxed);
        let cr = match std::panic::catch_unwind(std::panic::AssertUnwindSafe(|| e.run(&case))) {
            Ok(cr) => cr,
            Err(p) => {
                // a panic that escaped every tolerated place: an in-domain generated call
                // panicked where the harness expects none
                let msg = crate::interp::panic_text(p);
                rep.found.push(Found {
                    failure: Failure { prop: String::new(), kind: "uncaught_panic".into(), step: 0, detail: format!("a generated in-domain case panicked outside any tolerated call: {msg}") },
                    engine: e.name().to_string(),
                    payload: serde_json::to_value(&case).unwrap_or(Value::Null),
                    shrink_runs: 0,
                    level: "case".into(),
                });
                break;
            }
        };
        rep.cases += 1;
        rep.evaluations += cr.evaluations.max(1);
        for ev in &cr.events {
            *rep.events.entry((*ev).to_string()).or_insert(0) += 1;
        }
        for (k, v) in &cr.counters {
            *rep.counters.entry((*k).to_string()).or_insert(0) += *v;
        }
        for (k, d) in &cr.known {
            *rep.known_hits.entry(k.clone()).or_insert(0) += 1;
            let what = known.open.get(k).cloned().unwrap_or_default();
            rep.known_examples.entry(k.clone()).or_insert_with(|| format!("{what} [{d}]"));
        }
        rep.nontrivial_hashes.extend(cr.sub_hashes.iter().copied());
        if cr.nontrivial && cr.failure.is_none() {
            let fresh = rep.nontrivial_hashes.insert(cr.hash);
            if fresh && cr.weight > 1 {
                rep.distinct_extra += cr.weight - 1;
            }
            if fresh && rep.samples.len() < 3 {
                rep.samples.push(e.render(&case));
            }
        } else if !cr.sub_hashes.is_empty() && cr.failure.is_none() && rep.samples.len() < 3 {
            rep.samples.push(e.render(&case));
        }
        if let Some(f) = cr.failure {
            if let Some(what) = known.open.get(&f.kind) {
                *rep.known_hits.entry(f.kind.clone()).or_insert(0) += 1;
                rep.known_examples
                    .entry(f.kind.clone())
                    .or_insert_with(|| format!("{what} [{}]", f.detail));
                continue;
            }
            // unknown failure: shrink on the generator value first
            let kind = f.kind.clone();
            let mut best = (f, cr.payload.unwrap_or(Value::Null));
            let mut runs = 0u64;
            if tree.simplify() {
                loop {
                    if runs >= max_shrink {
                        break;
                    }
                    runs += 1;
                    let c = tree.current();
                    inflight.set(e.name(), &c);
                    CASE_STARTED.store(now_s(), std::sync::atomic::Ordering::Relaxed);
                    let Ok(r) = std::panic::catch_unwind(std::panic::AssertUnwindSafe(|| e.run(&c))) else {
                        if !tree.complicate() {
                            break;
                        }
                        continue;
                    };
                    let still = r.failure.as_ref().is_some_and(|x| x.kind == kind);
                    if still {
                        best = (r.failure.unwrap(), r.payload.unwrap_or(Value::Null));
                        if !tree.simplify() {
                            break;
                        }
                    } else if !tree.complicate() {
                        break;
                    }
                }
            }
            // then on the concrete case
            CASE_STARTED.store(now_s(), std::sync::atomic::Ordering::Relaxed);
            let payload = e.minimise(best.1.clone(), &kind);
            CASE_STARTED.store(now_s(), std::sync::atomic::Ordering::Relaxed);
            let failure = e.replay(&payload).filter(|x| x.kind == kind).unwrap_or(best.0);
            rep.found.push(Found { failure, engine: e.name().to_string(), payload, shrink_runs: runs, level: "concrete".into() });
            break;
        }
    }
    CASE_STARTED.store(0, std::sync::atomic::Ordering::Relaxed);
    inflight.clear();
    rep
}

/// Plain delta debugging over a list: remove chunks while `fails` stays true.
pub fn ddmin<T: Clone>(mut items: Vec<T>, fails: &mut dyn FnMut(&[T]) -> bool, budget: &mut u64) -> Vec<T> {
    let mut chunk = items.len().div_ceil(2).max(1);
    loop {
        let mut i = 0;
        let mut progressed = false;
        while i < items.len() {
            if *budget == 0 {
                return items;
            }
            let end = (i + chunk).min(items.len());
            let mut cand = items[..i].to_vec();
            cand.extend_from_slice(&items[end..]);
            *budget -= 1;
            // every candidate run is a case of its own for the per-case watchdog
            CASE_STARTED.store(now_s(), std::sync::atomic::Ordering::Relaxed);
            if fails(&cand) {
                items = cand;
                progressed = true;
            } else {
                i = end;
            }
        }
        if chunk == 1 {
            if !progressed {
                return items;
            }
        } else {
            chunk = chunk.div_ceil(2);
        }
    }
}


/// Byte-level (libFuzzer) layer for ANY engine: the input bytes are the random stream of
/// proptest's pass-through RNG, so the engine's own strategy turns them into a case
/// (every byte string decodes; zeros after the end). Returns the failure and the case.
pub fn run_bytes<E: Engine>(e: &E, tier: Tier, data: &[u8]) -> Option<(Failure, Value)> {
    // rand's uniform sampling rejects forever on an all-zero stream, which is what the
    // pass-through RNG delivers once the input is used up: append a long pseudo-random tail
    // derived from the input (splitmix64 of an FNV hash), so that the stream never runs dry
    let mut stream = data.to_vec();
    let mut x: u64 = 0xcbf2_9ce4_8422_2325;
    for b in data {
        x = (x ^ u64::from(*b)).wrapping_mul(0x0000_0100_0000_01b3);
    }
    for _ in 0..8192 {
        x = x.wrapping_add(0x9e37_79b9_7f4a_7c15);
        let mut z = x;
        z = (z ^ (z >> 30)).wrapping_mul(0xbf58_476d_1ce4_e5b9);
        z = (z ^ (z >> 27)).wrapping_mul(0x94d0_49bb_1331_11eb);
        stream.extend_from_slice(&(z ^ (z >> 31)).to_le_bytes());
    }
    let mut runner = TestRunner::new_with_rng(
        Config { failure_persistence: None, ..Config::default() },
        TestRng::from_seed(RngAlgorithm::PassThrough, &stream),
    );
    let tree = e.strategy(tier).new_tree(&mut runner).ok()?;
    let case = tree.current();
    let cr = e.run(&case);
    cr.failure.map(|f| (f, serde_json::to_value(&case).unwrap_or(Value::Null)))
}
