//! Engine `gcmodel`: drives generated histories (plus the drain epilogue) through the
//! lock-step interpreter and evaluates one property's oracle after every call.

use crate::calls::{Call, Cfg};
use crate::gen::{self, HistSeed, Profile};
use crate::interp::{Exp, Ret, Runner, StepInfo};
use crate::lab::Lab;
use crate::obs::{observe, Obs, ObsLevel};
use serde::{Deserialize, Serialize};
use std::collections::{BTreeMap, BTreeSet};
use std::hash::{Hash, Hasher};

#[derive(Debug, Clone, PartialEq, Eq, Serialize, Deserialize)]
pub struct Failure {
    pub prop: String,
    /// stable classifier of the failure (used for "same failure" during shrinking and
    /// for matching known findings)
    pub kind: String,
    pub step: usize,
    pub detail: String,
}

pub trait Oracle {
    fn prop(&self) -> &'static str;
    /// does the step need complete observations before/after (BASIC level)?
    fn wants_obs(&self) -> bool {
        false
    }
    fn owns_panic(&self, c: &Call) -> bool;
    /// may the history go on after the alive set has diverged from the model? (then calls
    /// are only made on vertices present on BOTH sides, and the oracle judges those)
    fn tolerates_desync(&self) -> bool {
        false
    }
    fn check(&mut self, r: &mut Runner, s: &StepInfo, ob: Option<(&Obs, &Obs)>) -> Option<Failure>;
}

fn fail(prop: &str, kind: &str, s: &StepInfo, detail: String) -> Option<Failure> {
    Some(Failure { prop: prop.into(), kind: kind.into(), step: s.idx, detail })
}

fn removed_of(s: &StepInfo) -> Vec<usize> {
    s.keys_before.iter().copied().filter(|k| !s.keys_after.contains(k)).collect()
}

// ------------------------------------------------------------------------------ C01

pub struct C01;
impl Oracle for C01 {
    fn prop(&self) -> &'static str {
        "C01"
    }
    fn owns_panic(&self, _: &Call) -> bool {
        false
    }
    fn check(&mut self, r: &mut Runner, s: &StepInfo, _: Option<(&Obs, &Obs)>) -> Option<Failure> {
        let removed = removed_of(s);
        if removed.is_empty() {
            return None;
        }
        match &s.call {
            Call::Data(v) if s.hist_first_read => {
                for w in &removed {
                    if !r.hist.was_bound(*w) {
                        return fail("C01", "removed_never_bound", s,
                            format!("first read of {v} removed vertex {w}, which was never an endpoint of a bind"));
                    }
                    if !r.hist.connected(*v, *w) {
                        return fail("C01", "removed_unlinked", s,
                            format!("first read of {v} removed vertex {w}, which is not linked to {v} through the history of bind calls"));
                    }
                    if r.hist.unread.contains(w) {
                        return fail("C01", "removed_holding_unread", s,
                            format!("first read of {v} removed vertex {w}, which holds a datum that was put and not yet read"));
                    }
                }
                None
            }
            c => fail("C01", "removed_by_non_reading_call", s,
                format!("{} removed vertices {removed:?} (it is not a first read of a datum)", c.render())),
        }
    }
}

// ------------------------------------------------------------------------------ C02

pub struct C02;
impl Oracle for C02 {
    fn prop(&self) -> &'static str {
        "C02"
    }
    fn owns_panic(&self, c: &Call) -> bool {
        matches!(c, Call::Add(_) | Call::Bind { .. } | Call::Put(..) | Call::Data(_))
    }
    fn check(&mut self, r: &mut Runner, s: &StepInfo, _: Option<(&Obs, &Obs)>) -> Option<Failure> {
        if let Some(p) = &s.panicked {
            if self.owns_panic(&s.call) {
                return fail("C02", "panic_within_limits", s, format!("{} panicked: {p}", s.call.render()));
            }
            return None;
        }
        let (len, empty) = (r.g.len(), r.g.is_empty());
        if len != s.keys_after.len() || empty != s.keys_after.is_empty() {
            return fail("C02", "len_disagrees_with_keys", s, format!(
                "after {}: len() = {len}, is_empty() = {empty}, keys() = {:?}", s.call.render(), s.keys_after));
        }
        if s.desync && !matches!(s.exp, Exp::Broken(_)) {
            let alive = r.m.alive();
            let extra: Vec<usize> = s.keys_after.iter().copied().filter(|k| !alive.contains(k)).collect();
            let missing: Vec<usize> = alive.iter().copied().filter(|k| !s.keys_after.contains(k)).collect();
            let kind = if !missing.is_empty() { "alive_set.vertex_missing" } else { "alive_set.vertex_survives" };
            return fail("C02", kind, s, format!(
                "after {}: keys()={:?} but the reference model has {:?} (missing {missing:?}, surviving {extra:?})",
                s.call.render(), s.keys_after, alive));
        }
        None
    }
}

// ------------------------------------------------------------------------------ C03

pub struct C03 {
    probes: Vec<Lab>,
    /// quiet: only the results of the history's own kid/kids/data calls are judged and no other
    /// query is made — the per-call look at every vertex would itself refresh (and so hide)
    /// whatever the implementation remembers between queries
    pub quiet: bool,
}
impl C03 {
    pub fn quiet() -> Self {
        Self { quiet: true, ..Self::new() }
    }
    pub fn new() -> Self {
        Self {
            quiet: false,
            probes: vec![
                Lab::Alpha(0), Lab::Alpha(99), Lab::Greek('x'), Lab::Greek('φ'), Lab::Str("foo".into()), Lab::Str("zz".into()),
                // twins of pool labels under lossy comparisons
                Lab::Str("ах".into()), Lab::Str("0E".into()), Lab::Greek('\u{10430}'), Lab::Greek('\u{0430}'), Lab::Greek('0'),
                Lab::Str("Foo".into()), Lab::Str("FOO".into()), Lab::Alpha(1), Lab::Alpha(1 << 32), Lab::Alpha((1 << 32) + 1), Lab::Str("myx".into()), Lab::Str("my x".into()),
                Lab::Str("abcd".into()), Lab::Str("abcde".into()), Lab::Str("ab".into()), Lab::Alpha(120), Lab::Alpha(966), Lab::Str("φ+α1".into()),
            ],
        }
    }
}
impl Default for C03 {
    fn default() -> Self {
        Self::new()
    }
}
impl Oracle for C03 {
    fn prop(&self) -> &'static str {
        "C03"
    }
    fn tolerates_desync(&self) -> bool {
        true
    }
    fn owns_panic(&self, c: &Call) -> bool {
        matches!(c, Call::Kid(..) | Call::Kids(_))
    }
    fn check(&mut self, r: &mut Runner, s: &StepInfo, _: Option<(&Obs, &Obs)>) -> Option<Failure> {
        if let Some(p) = &s.panicked {
            if self.owns_panic(&s.call) {
                return fail("C03", "panic_in_query", s, format!("{} panicked: {p}", s.call.render()));
            }
            return None;
        }
        match (&s.ret, &s.exp) {
            (Ret::Data(got), Exp::Data(o)) => {
                if *got != o.bytes {
                    let kind = if o.bytes.is_none() { "data.some_without_put" } else { "data.wrong_bytes" };
                    return fail("C03", kind, s, format!(
                        "{} returned {:?}, the most recent put was {:?} (first read: {})",
                        s.call.render(), got, o.bytes, o.first_read));
                }
            }
            (Ret::Kid(got), Exp::Kid(want)) => {
                if got != want {
                    return fail("C03", "kid.wrong_target", s, format!("{} returned {got:?}, expected {want:?}", s.call.render()));
                }
            }
            (Ret::Kids(got), Exp::Kids(want)) => {
                let mut g: Vec<(Lab, usize)> = got.clone();
                let mut w = want.clone();
                g.sort();
                w.sort();
                if g != w {
                    return fail("C03", "kids.differ", s, format!("{} returned {got:?}, but the binds since the vertex was created give {want:?}", s.call.render()));
                }
            }
            _ => {}
        }
        if self.quiet {
            return None;
        }
        // every present vertex, after every call
        for v in &s.keys_after {
            if !r.m.present(*v) {
                continue;
            }
            let mv = r.m.get(*v);
            let kids = r.g.kids(*v);
            let mut got: Vec<(Lab, usize)> = kids.iter().map(|(l, t)| (Lab::from_label(l), *t)).collect();
            let n_got = got.len();
            got.sort();
            let mut want = mv.edges.clone();
            want.sort();
            if got != want {
                let mut labs: Vec<&Lab> = got.iter().map(|x| &x.0).collect();
                labs.dedup();
                let kind = if labs.len() != n_got { "kids.duplicate_label" } else { "kids.differ" };
                return fail("C03", kind, s, format!(
                    "after {}: kids({v}) = {got:?}, but the binds since {v} was created give {want:?}", s.call.render()));
            }
            for (l, t) in &mv.edges {
                let k = r.g.kid(*v, l.direct());
                if k != Some(*t) {
                    return fail("C03", "kid.differs_from_last_bind", s, format!(
                        "after {}: kid({v},{l:?}) = {k:?}, most recent bind says {t}", s.call.render()));
                }
            }
            for l in &self.probes {
                if !mv.edges.iter().any(|(x, _)| x == l) {
                    let k = r.g.kid(*v, l.direct());
                    if k.is_some() {
                        return fail("C03", "kid.some_for_unbound_label", s, format!(
                            "after {}: kid({v},{l:?}) = {k:?} but that label was never bound", s.call.render()));
                    }
                }
            }
            let vp = r.g.v_print(*v).unwrap_or_default();
            if vp.contains('Δ') != mv.data.is_some() {
                return fail("C03", "data.presence_marker", s, format!(
                    "after {}: v_print({v}) = {vp:?} but the model has data = {:?}", s.call.render(), mv.data));
            }
        }
        None
    }
}

// ------------------------------------------------------------------------------ C04

pub struct C04;
impl Oracle for C04 {
    fn prop(&self) -> &'static str {
        "C04"
    }
    fn tolerates_desync(&self) -> bool {
        true
    }
    fn wants_obs(&self) -> bool {
        true
    }
    fn owns_panic(&self, c: &Call) -> bool {
        matches!(c, Call::Add(_))
    }
    fn check(&mut self, r: &mut Runner, s: &StepInfo, ob: Option<(&Obs, &Obs)>) -> Option<Failure> {
        if let Some(p) = &s.panicked {
            if self.owns_panic(&s.call) {
                return fail("C04", "panic_in_add", s, format!("{} panicked: {p}", s.call.render()));
            }
            return None;
        }
        let added = match (&s.call, &s.ret) {
            (Call::Add(v), _) => Some(*v),
            (Call::NextIdAdd, Ret::Id(v)) => Some(*v),
            _ => None,
        };
        if let (Some(v), Exp::Add { created, .. }) = (added, &s.exp) {
            if *created {
                if !s.keys_after.contains(&v) {
                    return fail("C04", "add.not_present", s, format!("after add({v}) the vertex is not in keys()"));
                }
                let kids = r.g.kids(v);
                if !kids.is_empty() {
                    return fail("C04", "add.stale_edges", s, format!(
                        "add({v}) on an absent id produced a vertex with edges {:?}",
                        kids.iter().map(|(l, t)| (l.to_string(), *t)).collect::<Vec<_>>()));
                }
                let vp = r.g.v_print(v).unwrap_or_default();
                if vp.contains('Δ') {
                    return fail("C04", "add.stale_data", s, format!("add({v}) on an absent id produced a vertex with data: {vp}"));
                }
                // no label of the previous vertex under this id answers any more
                for (l, t) in &r.m.grave[v] {
                    let k = r.g.kid(v, l.direct());
                    if k.is_some() {
                        return fail("C04", "add.stale_kid", s, format!(
                            "add({v}) on an absent id: kid({v},{l:?}) = {k:?} (the collected vertex had that edge to {t})"));
                    }
                }
                if let Some((b, a)) = ob {
                    // nothing else changed
                    let mut a2 = a.clone();
                    a2.keys.retain(|k| *k != v);
                    a2.verts.retain(|x| x.id != v);
                    a2.len = a2.keys.len();
                    if *b != a2 {
                        return fail("C04", "add.changed_others", s, format!(
                            "add({v}) changed other vertices: {}", crate::obs::diff(b, &a2).unwrap_or_default()));
                    }
                }
            } else if let Some((b, a)) = ob {
                if b != a {
                    return fail("C04", "add.present_changed", s, format!(
                        "add({v}) on a present vertex changed the graph: {}", crate::obs::diff(b, a).unwrap_or_default()));
                }
            }
        }
        // a vertex created blank stays without data until a put (read in history or epilogue)
        if let (Ret::Data(Some(got)), Exp::Data(o)) = (&s.ret, &s.exp) {
            if o.bytes.is_none() {
                return fail("C04", "add.stale_data_read", s, format!(
                    "{} returned {:?} although nothing was put since the vertex was (re-)created", s.call.render(), got));
            }
        }
        None
    }
}

// ------------------------------------------------------------------------------ C05

#[derive(Default)]
pub struct C05 {
    returned: BTreeSet<usize>,
}
impl Oracle for C05 {
    fn prop(&self) -> &'static str {
        "C05"
    }
    fn owns_panic(&self, c: &Call) -> bool {
        matches!(c, Call::NextId | Call::NextIdAdd)
    }
    fn check(&mut self, r: &mut Runner, s: &StepInfo, _: Option<(&Obs, &Obs)>) -> Option<Failure> {
        if let Some(p) = &s.panicked {
            if self.owns_panic(&s.call) {
                return fail("C05", "panic_in_next_id", s, format!("{} panicked: {p}", s.call.render()));
            }
            return None;
        }
        match (&s.call, &s.ret) {
            (Call::NextId | Call::NextIdAdd, Ret::Id(id)) => {
                if *id >= r.cfg.cap {
                    return fail("C05", "next_id.not_below_capacity", s, format!("next_id() returned {id}, capacity is {}", r.cfg.cap));
                }
                if s.keys_before.contains(id) {
                    return fail("C05", "next_id.present", s, format!("next_id() returned {id}, which is present (keys = {:?})", s.keys_before));
                }
                if !self.returned.insert(*id) {
                    return fail("C05", "next_id.repeated", s, format!("next_id() returned {id} for the second time"));
                }
            }
            (Call::SaveLoad, _) => self.returned.clear(),
            (Call::Merge { .. } | Call::ScriptNew { .. }, _) => {
                let newv: Vec<usize> = s.keys_after.iter().copied().filter(|k| !s.keys_before.contains(k)).collect();
                for id in newv {
                    if !self.returned.insert(id) {
                        return fail("C05", "internal_id.repeated", s, format!(
                            "{} created vertex {id}, an id that next_id() had already returned", s.call.render()));
                    }
                }
                if let Exp::Broken(e) = &s.exp {
                    if e.contains("already present") || e.contains("was present") {
                        return fail("C05", "internal_id.present", s, format!("{}: {e}", s.call.render()));
                    }
                }
            }
            _ => {}
        }
        None
    }
}

// --------------------------------------------------------------------------- driver

#[derive(Debug, Clone, Default)]
pub struct CaseOutcome {
    pub cfg: Option<Cfg>,
    pub calls: Vec<Call>,
    pub failure: Option<Failure>,
    pub closed: Option<&'static str>,
    pub events: BTreeSet<&'static str>,
    pub skipped_seeds: u32,
    pub gen_calls: usize,
    pub collections: u64,
    pub groups_died: u64,
    pub max_groups_alive: usize,
    pub max_group_size: usize,
    pub max_labels: usize,
    /// indices (into calls) of add() calls on ids the model had present
    pub readd_present_idx: Vec<usize>,
    pub trace: Vec<(Ret, Obs)>,
}

impl CaseOutcome {
    pub fn hash64(&self) -> u64 {
        let mut h = std::collections::hash_map::DefaultHasher::new();
        self.cfg.hash(&mut h);
        self.calls.hash(&mut h);
        h.finish()
    }
}

pub struct Driver<'a> {
    pub r: Runner,
    pub oracle: &'a mut dyn Oracle,
    pub out: CaseOutcome,
    pub record_trace: Option<ObsLevel>,
}

impl<'a> Driver<'a> {
    pub fn new(cfg: Cfg, oracle: &'a mut dyn Oracle) -> Self {
        Self {
            r: Runner::new(cfg),
            oracle,
            out: CaseOutcome { cfg: Some(cfg), ..Default::default() },
            record_trace: None,
        }
    }

    /// true = go on
    pub fn step(&mut self, call: &Call) -> bool {
        if !self.r.valid(call) || (self.r.desynced && !self.r.valid_on_impl(call)) {
            self.out.skipped_seeds += 1;
            return true;
        }
        for e in gen::classify(&self.r.m, call) {
            self.out.events.insert(e);
        }
        if let Call::Add(v) = call {
            if self.r.m.present(*v) {
                self.out.readd_present_idx.push(self.out.calls.len());
            }
        }
        let want_obs = self.oracle.wants_obs() && !self.r.blind;
        let before = if want_obs { Some(observe(&*self.r.g, ObsLevel::BASIC)) } else { None };
        let s = self.r.step(call);
        self.out.calls.push(call.clone());
        let after = if want_obs && s.panicked.is_none() { Some(observe(&*self.r.g, ObsLevel::BASIC)) } else { None };
        if let Some(l) = self.record_trace {
            if s.panicked.is_none() {
                self.out.trace.push((s.ret.clone(), observe(&*self.r.g, l)));
            }
        }
        let ob = match (&before, &after) {
            (Some(b), Some(a)) => Some((b, a)),
            _ => None,
        };
        if let Some(f) = self.oracle.check(&mut self.r, &s, ob) {
            self.out.failure = Some(f);
            return false;
        }
        if s.panicked.is_some() {
            self.out.closed = Some("foreign_panic");
            return false;
        }
        if matches!(s.exp, Exp::Broken(_)) || (s.desync && !self.oracle.tolerates_desync()) {
            if self.oracle.prop() == "C01" && s.desync {
                // the alive set has left the model (that by itself is C02's business); before the
                // case is closed: a vertex the implementation still has although it should be gone
                // must not take unrelated vertices with it when it is read
                if let Some(f) = self.probe_strangers(&s) {
                    self.out.failure = Some(f);
                    return false;
                }
            }
            self.out.closed = Some("desync_with_model");
            return false;
        }
        if s.desync {
            self.out.events.insert("continued_past_desync");
        }
        if let Exp::Data(o) = &s.exp {
            if !o.removed.is_empty() && !self.r.m.alive().is_empty() {
                self.out.events.insert("collect.with_survivors");
            }
        }
        let m = &self.r.m;
        self.out.collections = m.collections;
        self.out.groups_died = m.groups_died;
        self.out.max_groups_alive = self.out.max_groups_alive.max(m.groups_alive());
        self.out.max_group_size = self.out.max_group_size.max(m.groups.values().map(BTreeSet::len).max().unwrap_or(0));
        if let Call::Bind { a, .. } = call {
            self.out.max_labels = self.out.max_labels.max(m.get(*a).edges.len());
        }
        true
    }

    /// C01 only, after the implementation's alive set has left the model: every vertex that
    /// keys() reports although the history says it is gone (a "stranger": leaked by a collection,
    /// kept by a copy) is given a datum and read — after fresh pairs WITHOUT data were formed in
    /// every free group slot, so that a stale slot number finds a live group. Whatever else
    /// disappears was never bind-linked to the stranger, or holds an unread datum: C01's own
    /// statement. On a tree without the defect there are no strangers and nothing is called.
    fn probe_strangers(&mut self, s: &crate::interp::StepInfo) -> Option<Failure> {
        use std::panic::{catch_unwind, AssertUnwindSafe};
        let keys = self.r.g.keys();
        let strangers: Vec<usize> = keys.iter().copied().filter(|k| !self.r.m.present(*k)).take(8).collect();
        if strangers.is_empty() {
            return None;
        }
        self.out.events.insert("c01.strangers_probed");
        let cap = self.r.m.cap;
        let both_absent: Vec<usize> = (0..cap).filter(|i| !keys.contains(i) && !self.r.m.present(*i)).collect();
        let free_slots = crate::model::MAX_GROUPS.saturating_sub(self.r.m.groups_alive());
        let mut fresh = vec![];
        for j in 0..free_slots {
            let (Some(a), Some(b)) = (both_absent.get(2 * j), both_absent.get(2 * j + 1)) else { break };
            let g = &mut self.r.g;
            if catch_unwind(AssertUnwindSafe(|| {
                g.add(*a);
                g.add(*b);
                g.bind(*a, *b, crate::lab::Lab::Alpha(0).direct());
            }))
            .is_ok()
            {
                fresh.extend([*a, *b]);
            }
        }
        for x in &strangers {
            let before = self.r.g.keys();
            let g = &mut self.r.g;
            let _ = catch_unwind(AssertUnwindSafe(|| {
                g.put(*x, &crate::graph::hex_of(&[0x5A; 3]));
                let _ = g.data(*x);
            }));
            let after = self.r.g.keys();
            for w in before.iter().filter(|w| !after.contains(w) && !strangers.contains(w)) {
                let known = self.r.m.present(*w);
                if !known && !fresh.contains(w) {
                    continue;
                }
                let linked = known && *x < cap && self.r.hist.connected(*x, *w);
                let unread = known && self.r.hist.unread.contains(w);
                if !linked || unread {
                    return fail("C01", if unread { "removed_holding_unread" } else { "removed_unlinked" }, s, format!(
                        "after {}: the implementation still has vertex {x} (the history says it is gone); put({x}) + first read of {x} removed vertex {w}, which {}",
                        s.call.render(),
                        if unread { "holds a datum that was put and not yet read" } else { "was never linked to it by a bind" }));
                }
            }
        }
        None
    }

    /// The drain epilogue of DESIGN §5.4.
    pub fn epilogue(&mut self, order_sel: u16) -> bool {
        let mut ep = Epilogue::new(&self.r.m, order_sel);
        while let Some((call, ev)) = ep.next(&self.r.m) {
            self.out.events.insert(ev);
            if !self.step(&call) {
                return false;
            }
        }
        true
    }
}

/// The drain epilogue as a call source that looks at the evolving model:
/// (1) every present vertex is read twice (vertices collected meanwhile are skipped);
/// (2) as many fresh groups as there are free group slots are created so that they are
/// alive simultaneously, each gets one datum, then each is read.
pub struct Epilogue {
    ids: Vec<usize>,
    pos: usize,
    stage2: Option<Vec<Call>>,
    pos2: usize,
}

impl Epilogue {
    pub fn new(m: &crate::model::Model, order_sel: u16) -> Self {
        let mut ids = m.alive();
        if !ids.is_empty() {
            let rot = gen::idx(order_sel, ids.len());
            ids.rotate_left(rot);
            if order_sel & 1 == 1 {
                ids.reverse();
            }
        }
        Self { ids, pos: 0, stage2: None, pos2: 0 }
    }

    pub fn next(&mut self, m: &crate::model::Model) -> Option<(Call, &'static str)> {
        while self.pos < self.ids.len() * 2 {
            let v = self.ids[self.pos / 2];
            self.pos += 1;
            if m.present(v) {
                return Some((Call::Data(v), "epilogue.read"));
            }
        }
        if self.stage2.is_none() {
            let absent = m.absent_ids();
            let free_groups = crate::model::MAX_GROUPS.saturating_sub(m.groups_alive());
            let k = free_groups.min(absent.len() / 2);
            let mut calls = vec![];
            for i in 0..k {
                let (x, y) = (absent[2 * i], absent[2 * i + 1]);
                calls.push(Call::Add(x));
                calls.push(Call::Add(y));
                calls.push(Call::Bind { a: x, b: y, l: Lab::Alpha(0), parsed: false });
            }
            for i in 0..k {
                calls.push(Call::Put(absent[2 * i], vec![i as u8; 1 + (i % 3) * 4]));
            }
            for i in 0..k {
                calls.push(Call::Data(absent[2 * i]));
            }
            self.stage2 = Some(calls);
        }
        let c = self.stage2.as_ref().unwrap().get(self.pos2)?.clone();
        self.pos2 += 1;
        Some((c, "epilogue.slot_probe"))
    }
}

/// Run a generated history (seeds resolved against the model) plus the epilogue.
pub fn run_seeded(hs: &HistSeed, profiles: &[Profile], oracle: &mut dyn Oracle, trace: Option<ObsLevel>) -> CaseOutcome {
    let cfg = gen::cfg_of(hs);
    let profile = profiles[(hs.profile_sel as usize * profiles.len()) >> 8];
    let mut d = Driver::new(cfg, oracle);
    d.record_trace = trace;
    let mut ok = true;
    for c in gen::prelude(profile, hs, cfg) {
        if !d.step(&c) {
            ok = false;
            break;
        }
    }
    for seed in &hs.ops {
        if !ok {
            break;
        }
        match gen::resolve(seed, &d.r.m, profile) {
            Some(call) => {
                if !d.step(&call) {
                    ok = false;
                    break;
                }
            }
            None => d.out.skipped_seeds += 1,
        }
    }
    d.out.gen_calls = d.out.calls.len();
    if ok {
        d.epilogue(hs.order_sel);
    }
    d.out
}

/// Replay concrete calls (no generator involved); calls whose preconditions do not
/// hold any more are skipped.
pub fn run_concrete(cfg: Cfg, calls: &[Call], oracle: &mut dyn Oracle, trace: Option<ObsLevel>) -> CaseOutcome {
    let mut d = Driver::new(cfg, oracle);
    d.record_trace = trace;
    for c in calls {
        if !d.step(c) {
            break;
        }
    }
    d.out.gen_calls = d.out.calls.len();
    d.out
}

/// Blind run (see `Runner::blind`): the concrete calls once more with NOTHING asked of the
/// implementation between them except what the calls themselves return; the oracle sees the
/// model's alive set in place of keys(). One complete look at the end: the alive set (C02), the
/// edges and data markers of every vertex (C03), the blankness of every vertex that has not been
/// written since it was created (C04). What a per-call look would wake up or refresh — a sweep
/// postponed until somebody asks, a cache that keys() rebuilds — stays asleep until then.
pub fn run_blind(cfg: Cfg, calls: &[Call], oracle: &mut dyn Oracle) -> Option<Failure> {
    let prop = oracle.prop();
    let mut d = Driver::new(cfg, oracle);
    d.r.blind = true;
    for c in calls {
        if !d.step(c) {
            break;
        }
    }
    if d.out.failure.is_some() {
        return d.out.failure;
    }
    if d.out.closed.is_some() {
        return None;
    }
    final_look(&mut d.r, prop, calls.len())
}

pub fn final_look(r: &mut Runner, prop: &str, step: usize) -> Option<Failure> {
    use std::panic::{catch_unwind, AssertUnwindSafe};
    let mk = |kind: &str, detail: String| Some(Failure { prop: prop.into(), kind: kind.into(), step, detail });
    let g = &r.g;
    let Ok(keys) = catch_unwind(AssertUnwindSafe(|| g.keys())) else {
        return if prop == "C02" { mk("panic_within_limits", "keys() panicked at the end of a blind run".into()) } else { None };
    };
    let alive = r.m.alive();
    if prop == "C02" {
        let extra: Vec<usize> = keys.iter().copied().filter(|k| !alive.contains(k)).collect();
        let missing: Vec<usize> = alive.iter().copied().filter(|k| !keys.contains(k)).collect();
        if !extra.is_empty() || !missing.is_empty() {
            let kind = if !missing.is_empty() { "alive_set.vertex_missing" } else { "alive_set.vertex_survives" };
            return mk(kind, format!(
                "blind run (keys() not asked until the end of the history): keys()={keys:?} but the reference model has {alive:?} (missing {missing:?}, surviving {extra:?})"));
        }
        let (len, empty) = (r.g.len(), r.g.is_empty());
        if len != keys.len() || empty != keys.is_empty() {
            return mk("len_disagrees_with_keys", format!("blind run: len() = {len}, is_empty() = {empty}, keys() = {keys:?}"));
        }
        return None;
    }
    for v in &keys {
        if !r.m.present(*v) {
            continue;
        }
        let mv = r.m.get(*v);
        let g = &r.g;
        let Ok((mut got, vp)) = catch_unwind(AssertUnwindSafe(|| {
            let got: Vec<(Lab, usize)> = g.kids(*v).iter().map(|(l, t)| (Lab::from_label(l), *t)).collect();
            (got, g.v_print(*v).unwrap_or_default())
        })) else {
            return if prop == "C03" { mk("panic_in_query", format!("kids({v}) / v_print({v}) panicked at the end of a blind run")) } else { None };
        };
        got.sort();
        let mut want = mv.edges.clone();
        want.sort();
        match prop {
            "C03" => {
                if got != want {
                    return mk("kids.differ", format!("blind run (nothing asked until the end): kids({v}) = {got:?}, but the binds since {v} was created give {want:?}"));
                }
                for (l, t) in &mv.edges {
                    let k = r.g.kid(*v, l.direct());
                    if k != Some(*t) {
                        return mk("kid.differs_from_last_bind", format!("blind run: kid({v},{l:?}) = {k:?}, most recent bind says {t}"));
                    }
                }
                if vp.contains('Δ') != mv.data.is_some() {
                    return mk("data.presence_marker", format!("blind run: v_print({v}) = {vp:?} but the model has data = {:?}", mv.data));
                }
            }
            "C04" => {
                if want.is_empty() && !got.is_empty() {
                    return mk("add.stale_edges", format!(
                        "blind run (nothing asked until the end): vertex {v} has had no bind since add({v}) created it, but kids({v}) = {got:?}"));
                }
                if mv.data.is_none() && vp.contains('Δ') {
                    return mk("add.stale_data", format!(
                        "blind run: vertex {v} has had no put since add({v}) created it, but v_print({v}) = {vp:?}"));
                }
            }
            _ => {}
        }
    }
    if prop == "C04" {
        // a vertex that was added and never bound cannot have been collected
        for v in &alive {
            if !keys.contains(v) && !r.hist.was_bound(*v) {
                return mk("add.not_present", format!("blind run: vertex {v} was added, never bound, and is not in keys() = {keys:?}"));
            }
        }
    }
    None
}

pub fn make_oracle(prop: &str) -> Box<dyn Oracle> {
    match prop {
        "C01" => Box::new(C01),
        "C02" | "C06" => Box::new(C02),
        "C03" => Box::new(C03::new()),
        "C04" => Box::new(C04),
        "C05" => Box::new(C05::default()),
        _ => panic!("no gcmodel oracle for {prop}"),
    }
}

pub type EventHistogram = BTreeMap<String, u64>;
