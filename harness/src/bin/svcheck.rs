//! svcheck: parent/worker driver, replay, evidence writer.
//!
//!   svcheck check <PROP> --tier quick|thorough          (reads VERIF_SEED)
//!   svcheck replay <PROP> <file>
//!   svcheck worker ...                                  (internal)

use serde_json::{json, Value};
use std::collections::BTreeMap;
use std::path::{Path, PathBuf};
use std::process::{Command, Stdio};
use std::time::{Duration, Instant};
use svcore::campaign::{verif_root, InFlight, Known, Tier, WorkerReport};
use svcore::registry;

fn arg_after(args: &[String], flag: &str) -> Option<String> {
    args.iter().position(|a| a == flag).and_then(|i| args.get(i + 1).cloned())
}

fn quiet_panics() {
    if std::env::var("SVCHECK_LOUD").is_err() {
        std::panic::set_hook(Box::new(|_| {}));
    }
}

fn main() {
    let args: Vec<String> = std::env::args().collect();
    let code = match args.get(1).map(String::as_str) {
        Some("check") => cmd_check(&args),
        Some("worker") => cmd_worker(&args),
        Some("replay") => cmd_replay(&args),
        Some("replay-inner") => cmd_replay_inner(&args),
        Some("gen-corpus") => cmd_gen_corpus(&args),
        Some("trace-digest") => {
            quiet_panics();
            svcore::props::multi::trace_digest_cmd(args.get(2).map_or("", String::as_str))
        }
        _ => {
            eprintln!("usage: svcheck check <PROP> --tier quick|thorough | svcheck replay <PROP> <file>");
            2
        }
    };
    svcore::interp::cleanup_tmp();
    std::process::exit(code);
}

fn tier_of(args: &[String]) -> Tier {
    match arg_after(args, "--tier").as_deref() {
        Some("thorough") => Tier::Thorough,
        _ => Tier::Quick,
    }
}

fn verif_seed() -> u64 {
    std::env::var("VERIF_SEED").ok().and_then(|s| s.trim().parse::<u64>().ok()).unwrap_or(20_260_926)
}

/// The binary that runs generated cases and replays: normally this one; for C07 an
/// instrumented (sanitizer) build of the same program.
fn worker_exe() -> PathBuf {
    std::env::var("SVCHECK_WORKER_EXE").map_or_else(|_| std::env::current_exe().unwrap(), PathBuf::from)
}

fn scratch_dir() -> PathBuf {
    let base = if Path::new("/dev/shm").is_dir() { PathBuf::from("/dev/shm") } else { verif_root().join("target/tmp") };
    let d = base.join(format!("svcheck-parent-{}", std::process::id()));
    let _ = std::fs::create_dir_all(&d);
    d
}

// ------------------------------------------------------------------------- worker

fn cmd_worker(args: &[String]) -> i32 {
    quiet_panics();
    let prop = args[2].clone();
    let tier = tier_of(args);
    let seed: u64 = arg_after(args, "--seed").unwrap().parse().unwrap();
    let idx: u64 = arg_after(args, "--idx").unwrap().parse().unwrap();
    let of: u64 = arg_after(args, "--of").unwrap().parse().unwrap();
    let out = PathBuf::from(arg_after(args, "--out").unwrap());
    let infl = PathBuf::from(arg_after(args, "--inflight").unwrap());
    let meta = registry::meta(&prop).expect("unknown property");
    let known = Known::load(&prop);
    let mut inflight = InFlight::new(Some(&infl));
    svcore::campaign::start_watchdog(120);
    let mut reports: Vec<WorkerReport> = vec![];
    let only = arg_after(args, "--only-sub");
    for sub in &meta.subs {
        if only.as_ref().is_some_and(|o| !o.split(',').any(|x| x == sub.id)) {
            continue;
        }
        if only.is_none() && sub.id.ends_with("-fast") != std::env::var("SVCHECK_FAST_BUILD").is_ok() {
            // the "-fast" sub-campaigns belong to the build without debug assertions / overflow checks
            continue;
        }
        let total = if tier == Tier::Quick { sub.quick } else { sub.thorough };
        // fixed split of the fixed amount of work
        let share = total / of + u64::from(idx < total % of);
        if share == 0 {
            continue;
        }
        let mut r = registry::run_sub(&prop, sub.id, tier, seed, idx, share, &known, &mut inflight);
        r.engine = sub.id.to_string();
        reports.push(r);
    }
    std::fs::write(&out, serde_json::to_vec(&reports).unwrap()).unwrap();
    0
}

// -------------------------------------------------------------------------- check

struct Violation {
    replay: PathBuf,
    detail: String,
}

fn write_replay(prop: &str, name: &str, v: &Value) -> PathBuf {
    let dir = verif_root().join("replays").join(prop).join("found");
    let _ = std::fs::create_dir_all(&dir);
    let p = dir.join(format!("{name}.json"));
    let _ = std::fs::write(&p, serde_json::to_string_pretty(v).unwrap());
    p
}

fn run_replay_file(prop: &str, path: &Path, known: &Known) -> Result<Option<(String, String)>, String> {
    // returns Some((kind, detail)) if the replay still fails with an unknown failure
    let exe = worker_exe();
    let out = Command::new(exe)
        .args(["replay-inner", prop, path.to_str().unwrap()])
        .stdin(Stdio::null())
        .output()
        .map_err(|e| e.to_string())?;
    let text = String::from_utf8_lossy(&out.stdout).to_string();
    match out.status.code() {
        Some(0) => Ok(None),
        Some(1) => {
            let v: Value = serde_json::from_str(text.trim()).unwrap_or(Value::Null);
            let kind = v["kind"].as_str().unwrap_or("?").to_string();
            if known.open.contains_key(&kind) {
                return Ok(None);
            }
            Ok(Some((kind, v["detail"].as_str().unwrap_or("").to_string())))
        }
        Some(c) => Err(format!("replay of {} exited with {c}: {}", path.display(), String::from_utf8_lossy(&out.stderr))),
        None => Ok(Some(("crash".into(), format!("replaying {} killed the process with a signal ({:?}): {}", path.display(), out.status, String::from_utf8_lossy(&out.stderr).chars().take(2000).collect::<String>())))),
    }
}

fn cmd_check(args: &[String]) -> i32 {
    let t0 = Instant::now();
    let prop = match args.get(2) {
        Some(p) => p.clone(),
        None => return 2,
    };
    let tier = tier_of(args);
    let seed = verif_seed();
    let Some(meta) = registry::meta(&prop) else {
        eprintln!("unknown property {prop}");
        return 2;
    };
    let known = Known::load(&prop);
    let mut violations: Vec<Violation> = vec![];
    let mut infra_errors: Vec<String> = vec![];
    let mut known_lines: BTreeMap<String, String> = BTreeMap::new();

    // 1. replay tier: every saved reproduction, and the probes of the known findings
    let mut replayed = 0u64;
    let rdir = verif_root().join("replays").join(&prop);
    let mut files: Vec<PathBuf> = std::fs::read_dir(&rdir)
        .map(|d| d.filter_map(|e| e.ok().map(|e| e.path())).filter(|p| p.extension().is_some_and(|x| x == "json")).collect())
        .unwrap_or_default();
    files.sort();
    if args.iter().any(|a| a == "--no-replays") {
        files.clear();
    }
    for f in &files {
        replayed += 1;
        // a replay whose failure matches an OPEN known finding prints the KNOWN-FINDING line
        let exe = worker_exe();
        let out = Command::new(&exe).args(["replay-inner", &prop, f.to_str().unwrap()]).stdin(Stdio::null()).output();
        match out {
            Ok(o) => match o.status.code() {
                Some(0) => {}
                Some(1) => {
                    let v: Value = serde_json::from_str(String::from_utf8_lossy(&o.stdout).trim()).unwrap_or(Value::Null);
                    let kind = v["kind"].as_str().unwrap_or("?").to_string();
                    if let Some(what) = known.open.get(&kind) {
                        known_lines.entry(kind).or_insert_with(|| what.clone());
                    } else {
                        violations.push(Violation { replay: f.clone(), detail: format!("{kind}: {}", v["detail"].as_str().unwrap_or("")) });
                    }
                }
                Some(c) => infra_errors.push(format!("replay {} exit {c}: {}", f.display(), String::from_utf8_lossy(&o.stderr))),
                None => violations.push(Violation { replay: f.clone(), detail: format!("replay killed by signal: {:?}", o.status) }),
            },
            Err(e) => infra_errors.push(format!("cannot run replay: {e}")),
        }
    }

    // 2. generated search in worker processes
    let workers: u64 = if tier == Tier::Quick { 8 } else { 16 };
    let dir = scratch_dir();
    let exe = worker_exe();
    let mut children = vec![];
    for i in 0..workers {
        let out = dir.join(format!("w{i}.json"));
        let infl = dir.join(format!("w{i}.inflight"));
        let mut cmd = Command::new(&exe);
        let child = cmd
            .args(["worker", &prop, "--tier", tier.name(), "--seed", &seed.to_string(), "--idx", &i.to_string(), "--of", &workers.to_string()])
            .args(arg_after(args, "--only-sub").map(|o| vec!["--only-sub".to_string(), o]).unwrap_or_default())
            .arg("--out").arg(&out)
            .arg("--inflight").arg(&infl)
            .stdin(Stdio::null())
            .stderr(Stdio::piped())
            .spawn();
        match child {
            Ok(c) => children.push((i, c, out, infl)),
            Err(e) => infra_errors.push(format!("cannot spawn worker {i}: {e}")),
        }
    }
    let limit = Duration::from_secs(if tier == Tier::Quick { 1500 } else { 6 * 3600 });
    let mut merged: BTreeMap<String, WorkerReport> = BTreeMap::new();
    let mut timed_out = false;
    for (i, mut c, out, infl) in children {
        // wait with watchdog
        let status = loop {
            match c.try_wait() {
                Ok(Some(s)) => break Some(s),
                Ok(None) => {
                    if t0.elapsed() > limit {
                        let _ = c.kill();
                        let _ = c.wait();
                        timed_out = true;
                        break None;
                    }
                    std::thread::sleep(Duration::from_millis(20));
                }
                Err(e) => {
                    infra_errors.push(format!("wait failed: {e}"));
                    break None;
                }
            }
        };
        let mut stderr = String::new();
        if let Some(mut e) = c.stderr.take() {
            use std::io::Read;
            let _ = e.read_to_string(&mut stderr);
        }
        let Some(status) = status else {
            if timed_out {
                if let Some(v) = registry::timeout_is_violation(&prop) {
                    let inflight_txt = std::fs::read_to_string(&infl).unwrap_or_default();
                    let case: Value = serde_json::from_str(&inflight_txt).unwrap_or(Value::Null);
                    let p = write_replay(&prop, &format!("timeout-w{i}"), &json!({"property": prop, "level": "case", "engine": case["engine"], "case": case["case"], "kind": "non_termination", "detail": v}));
                    violations.push(Violation { replay: p, detail: v.to_string() });
                } else {
                    infra_errors.push(format!("worker {i} exceeded the watchdog"));
                }
            }
            continue;
        };
        if status.success() {
            match std::fs::read(&out).ok().and_then(|b| serde_json::from_slice::<Vec<WorkerReport>>(&b).ok()) {
                Some(reps) => {
                    for r in reps {
                        merged.entry(r.engine.clone()).or_insert_with(|| WorkerReport { engine: r.engine.clone(), ..Default::default() }).merge(r);
                    }
                }
                None => infra_errors.push(format!("worker {i} wrote no report: {stderr}")),
            }
        } else if status.code() == Some(42) {
            // one case ran longer than the per-case watchdog
            if let Some(v) = registry::timeout_is_violation(&prop) {
                let inflight_txt = std::fs::read_to_string(&infl).unwrap_or_default();
                let case: Value = serde_json::from_str(&inflight_txt).unwrap_or(Value::Null);
                let p = write_replay(&prop, &format!("timeout-w{i}"), &json!({"property": prop, "level": "case", "engine": case["engine"], "case": case["case"], "kind": "non_termination", "detail": v}));
                violations.push(Violation { replay: p, detail: v.to_string() });
            } else {
                infra_errors.push(format!("worker {i}: one case exceeded the per-case watchdog (inconclusive)"));
            }
        } else if status.code().is_none() || registry::crash_exit_is_violation(status.code()) {
            // died on a signal (stack overflow, sanitizer abort): the in-flight case is the reproduction
            let inflight_txt = std::fs::read_to_string(&infl).unwrap_or_default();
            let case: Value = serde_json::from_str(&inflight_txt).unwrap_or(Value::Null);
            let tail: String = stderr.chars().rev().take(3000).collect::<String>().chars().rev().collect();
            let p = write_replay(&prop, &format!("crash-w{i}"), &json!({"property": prop, "level": "case", "engine": case["engine"], "case": case["case"], "kind": "process_killed", "detail": format!("worker died: {status:?}\n{tail}")}));
            violations.push(Violation { replay: p, detail: format!("worker process died ({status:?}) while running the saved case") });
        } else {
            infra_errors.push(format!("worker {i} failed: {status:?}: {stderr}"));
        }
    }
    let _ = std::fs::remove_dir_all(&dir);

    // 3. collect failures found by the generated search
    for (eng, r) in &merged {
        for (k, f) in r.found.iter().enumerate() {
            let v = if f.level == "case" {
                json!({"property": prop, "level": "case", "engine": f.engine, "kind": f.failure.kind,
                    "detail": f.failure.detail, "case": f.payload, "seed": seed, "tier": tier.name()})
            } else {
                json!({
                    "property": prop, "level": "concrete", "engine": f.engine, "kind": f.failure.kind,
                    "detail": f.failure.detail, "step": f.failure.step, "payload": f.payload,
                    "seed": seed, "tier": tier.name(), "shrink_runs": f.shrink_runs,
                })
            };
            let p = write_replay(&prop, &format!("{eng}-{}-{k}", f.failure.kind.replace(['.', '/', ' '], "_")), &v);
            violations.push(Violation { replay: p, detail: format!("{}: {}", f.failure.kind, f.failure.detail) });
        }
        for (sig, ex) in &r.known_examples {
            known_lines.entry(sig.clone()).or_insert_with(|| ex.clone());
        }
    }

    // 4. evidence
    let mut evaluations = replayed;
    let mut distinct = 0u64;
    let mut samples: Vec<Value> = vec![];
    let mut per_engine = serde_json::Map::new();
    let mut exhaustive = false;
    for (eng, r) in &merged {
        evaluations += r.evaluations;
        distinct += r.nontrivial_hashes.len() as u64 + r.distinct_extra;
        exhaustive = exhaustive || r.exhaustive;
        for s in &r.samples {
            if samples.len() < 5 {
                samples.push(json!({"engine": eng, "case": s}));
            }
        }
        per_engine.insert(eng.clone(), json!({
            "cases": r.cases, "evaluations": r.evaluations, "distinct_nontrivial": r.nontrivial_hashes.len() as u64 + r.distinct_extra,
            "class_histogram_cases_with_event": r.events, "counters": r.counters,
            "known_finding_hits": r.known_hits, "notes": r.notes, "exhaustive": r.exhaustive,
        }));
    }
    let ev = json!({
        "property_id": prop,
        "tier": tier.name(),
        "seed": seed,
        "level": meta.level,
        "coverage": {
            "evaluations": evaluations,
            "distinct_nontrivial": distinct,
            "rule": if prop == "C07" { meta.rule.to_string() } else { format!("{} || Session additions: sub-campaign echo-sweeps (bounded-exhaustive; every API call this property is about is a 'look'): (foreign) look at the graph under test, R-1 times the same look at another graph, look again: equal answers, R in {{2,255,256,257,65535,65536,65537}} (thorough: 30 counts up to 131073); (stale) two graphs built alike, everything asked of the first only, the same R mutations on both (7 families), every look agrees; (fault) look, one of 20 kinds of foreign activity on the same thread (another graph forming/collecting groups, failing parses, failing sinks, failing save/load/merge/deploy), look again: equal. Stateful engines also generate Call::Noise (the same foreign activities between the calls of a history; the model does not move) and Call::Masquerade (another graph lives at g's address and is queried there, then g is restored); one gcmodel case in four is re-run blind (no keys() around the calls; one complete look at the end); sweep dimension hash-twins (texts colliding under 18 common 32-bit hash functions as labels of one vertex / data of two).", meta.rule) },
            "samples": samples,
            "exhaustive": exhaustive,
            "replayed_regression_files": replayed,
            "workers": workers,
            "engines": per_engine,
        },
        "assumptions": meta.assumptions,
        "wall_s": t0.elapsed().as_secs_f64(),
        "violations": violations.len(),
        "known_findings_reported": known_lines.keys().collect::<Vec<_>>(),
        "infrastructure_errors": infra_errors,
    });
    let edir = verif_root().join("evidence");
    let _ = std::fs::create_dir_all(&edir);
    let epath = arg_after(args, "--evidence-out").map_or_else(|| edir.join(format!("{prop}.json")), PathBuf::from);
    let _ = std::fs::write(epath, serde_json::to_string_pretty(&ev).unwrap());

    for (sig, what) in &known_lines {
        println!("KNOWN-FINDING: property={prop} {sig}: {what}");
    }
    println!(
        "{prop} {}: {} evaluations, {} distinct non-trivial, {} replay files, {:.1}s",
        tier.name(), evaluations, distinct, replayed, t0.elapsed().as_secs_f64()
    );
    if !violations.is_empty() {
        for v in &violations {
            println!("VIOLATION property={prop} replay={}", v.replay.display());
            println!("  {}", v.detail.chars().take(1200).collect::<String>());
        }
        return 1;
    }
    if !infra_errors.is_empty() {
        for e in &infra_errors {
            eprintln!("INCONCLUSIVE: {e}");
        }
        return 2;
    }
    0
}

// ------------------------------------------------------------------------- replay

fn cmd_replay(args: &[String]) -> i32 {
    let (Some(prop), Some(file)) = (args.get(2), args.get(3)) else {
        return 2;
    };
    let known = Known { open: BTreeMap::new() };
    match run_replay_file(prop, Path::new(file), &known) {
        Ok(None) => {
            println!("replay {file}: property {prop} holds on this input");
            0
        }
        Ok(Some((kind, detail))) => {
            println!("VIOLATION property={prop} replay={file}");
            println!("  {kind}: {detail}");
            1
        }
        Err(e) => {
            eprintln!("INCONCLUSIVE: {e}");
            2
        }
    }
}

/// exit 0 = holds, exit 1 = fails (prints {"kind","detail"} JSON), 2 = cannot run
fn cmd_replay_inner(args: &[String]) -> i32 {
    quiet_panics();
    let (Some(prop), Some(file)) = (args.get(2), args.get(3)) else {
        return 2;
    };
    let Ok(raw) = std::fs::read(file) else {
        eprintln!("cannot read {file}");
        return 2;
    };
    let parsed = std::str::from_utf8(&raw).ok().and_then(|t| serde_json::from_str::<Value>(t).ok()).filter(|v| v.get("engine").is_some());
    let Some(v) = parsed else {
        // not one of our JSON files: a raw libFuzzer input of this property's fuzz target
        return match registry::fuzz_bytes(prop, &raw) {
            None => 0,
            Some((f, _)) => {
                println!("{}", json!({"kind": f.kind, "detail": f.detail}));
                1
            }
        };
    };
    let engine = v["engine"].as_str().unwrap_or("");
    let res = match std::panic::catch_unwind(|| {
        if v["level"].as_str() == Some("case") {
            registry::run_case(prop, engine, &v["case"])
        } else {
            registry::replay(prop, engine, &v["payload"])
        }
    }) {
        Ok(r) => r,
        Err(p) => Ok(Some(svcore::engine::Failure {
            prop: prop.clone(),
            kind: "uncaught_panic".into(),
            step: 0,
            detail: format!("replaying panicked outside any tolerated call: {}", svcore::interp::panic_text(p)),
        })),
    };
    match res {
        Ok(None) => 0,
        Ok(Some(f)) => {
            println!("{}", json!({"kind": f.kind, "detail": f.detail}));
            1
        }
        Err(e) => {
            eprintln!("{e}");
            2
        }
    }
}


/// svcheck gen-corpus <dir> <n>: write n seed inputs for the libFuzzer target (the C07
/// proptest strategy with a fixed seed, encoded in the target's byte layout).
fn cmd_gen_corpus(args: &[String]) -> i32 {
    use proptest::strategy::{Strategy, ValueTree};
    use proptest::test_runner::{Config, RngAlgorithm, TestRng, TestRunner};
    use svcore::campaign::Engine;
    let (Some(dir), Some(n)) = (args.get(2), args.get(3).and_then(|x| x.parse::<usize>().ok())) else {
        return 2;
    };
    let _ = std::fs::create_dir_all(dir);
    let mut runner = TestRunner::new_with_rng(
        Config { failure_persistence: None, ..Config::default() },
        TestRng::from_seed(RngAlgorithm::ChaCha, &svcore::campaign::seed32(verif_seed(), "C07/corpus", 0)),
    );
    if args.get(4).map(String::as_str) == Some("gc") {
        let strat = svcore::gen::hist_strategy(80);
        for i in 0..n {
            let case = strat.new_tree(&mut runner).unwrap().current();
            let _ = std::fs::write(Path::new(dir).join(format!("seed-{i:04}")), svcore::props::gc::encode(&case));
        }
        return 0;
    }
    let strat = svcore::props::asan::AsanEngine.strategy(Tier::Quick);
    for i in 0..n {
        let case = strat.new_tree(&mut runner).unwrap().current();
        let _ = std::fs::write(Path::new(dir).join(format!("seed-{i:04}")), svcore::props::asan::encode(&case));
    }
    0
}
