//! Complete observation of a graph through its public query API.

use crate::graph::G;
use crate::lab::Lab;
use std::panic::{catch_unwind, AssertUnwindSafe};

#[derive(Debug, Clone, PartialEq, Eq, Hash)]
pub struct VObs {
    pub id: usize,
    /// in enumeration order
    pub kids: Vec<(Lab, usize)>,
    pub vprint: String,
    pub inspect: Option<String>,
}

#[derive(Debug, Clone, PartialEq, Eq, Hash)]
pub struct Obs {
    pub keys: Vec<usize>,
    pub len: usize,
    pub verts: Vec<VObs>,
    pub debug: Option<String>,
    pub xml: Option<String>,
    pub dot: Option<String>,
}

#[derive(Debug, Clone, Copy, PartialEq, Eq)]
pub struct ObsLevel {
    pub inspect: bool,
    pub debug: bool,
    pub exports: bool,
}

impl ObsLevel {
    pub const BASIC: ObsLevel = ObsLevel { inspect: false, debug: false, exports: false };
    pub const FULL: ObsLevel = ObsLevel { inspect: true, debug: true, exports: true };
    pub const NOEXPORT: ObsLevel = ObsLevel { inspect: true, debug: false, exports: false };
}

/// Are all edge targets of everything reachable from v below the capacity and is the
/// vertex slot usable? inspect() recurses into targets, present or not; a target
/// erased by a non-tree merge would panic, which never happens in generated histories.
pub fn observe(g: &dyn G, lvl: ObsLevel) -> Obs {
    let keys = g.keys();
    let verts = keys
        .iter()
        .map(|k| VObs {
            id: *k,
            kids: g
                .kids(*k)
                .iter()
                .map(|(l, t)| (Lab::from_label(l), *t))
                .collect(),
            vprint: g.v_print(*k).unwrap_or_else(|e| format!("ERR {e:#}")),
            inspect: if lvl.inspect {
                Some(g.inspect(*k).unwrap_or_else(|e| format!("ERR {e:#}")))
            } else {
                None
            },
        })
        .collect();
    // is_empty() is part of every complete look (its answer must agree with len(); it is also one
    // more traversal of the store that runs under the sanitizers of C07)
    let len = if g.is_empty() { 0 } else { g.len() };
    Obs {
        len: if len == 0 { g.len() } else { len },
        keys,
        verts,
        debug: if lvl.debug { Some(g.debug()) } else { None },
        xml: if lvl.exports {
            Some(g.to_xml().unwrap_or_else(|e| format!("ERR {e:#}")))
        } else {
            None
        },
        dot: if lvl.exports { Some(g.to_dot()) } else { None },
    }
}

/// observe() that turns a panic into an Err with the message.
pub fn try_observe(g: &dyn G, lvl: ObsLevel) -> Result<Obs, String> {
    catch_unwind(AssertUnwindSafe(|| observe(g, lvl))).map_err(crate::interp::panic_text)
}

/// First difference between two observations, readable.
pub fn diff(a: &Obs, b: &Obs) -> Option<String> {
    if a == b {
        return None;
    }
    if a.keys != b.keys {
        return Some(format!("keys {:?} vs {:?}", a.keys, b.keys));
    }
    if a.len != b.len {
        return Some(format!("len {} vs {}", a.len, b.len));
    }
    for (x, y) in a.verts.iter().zip(b.verts.iter()) {
        if x.kids != y.kids {
            return Some(format!("kids({}) {:?} vs {:?}", x.id, x.kids, y.kids));
        }
        if x.vprint != y.vprint {
            return Some(format!("v_print({}) {:?} vs {:?}", x.id, x.vprint, y.vprint));
        }
        if x.inspect != y.inspect {
            return Some(format!("inspect({}) {:?} vs {:?}", x.id, x.inspect, y.inspect));
        }
    }
    if a.debug != b.debug {
        return Some(format!("Debug {:?} vs {:?}", a.debug, b.debug));
    }
    if a.xml != b.xml {
        return Some(format!("to_xml {:?} vs {:?}", a.xml, b.xml));
    }
    if a.dot != b.dot {
        return Some(format!("to_dot {:?} vs {:?}", a.dot, b.dot));
    }
    Some("observations differ".into())
}
