//! Lock-step interpreter: executes concrete calls on the implementation and on the
//! reference model, records what was observed through the public API, and keeps the
//! model-independent call-history facts that the C01/C05 invariants are stated over.

use crate::calls::{Call, Cfg, TreeSpec};
use crate::graph::{hex_of, new_graph, G};
use crate::lab::Lab;
use crate::model::{DataOutcome, Model};
use std::collections::{BTreeMap, BTreeSet};
use std::panic::{catch_unwind, AssertUnwindSafe};
use std::path::PathBuf;
use std::sync::atomic::{AtomicU64, Ordering};

#[derive(Debug, Clone, PartialEq, Eq)]
pub enum Prim {
    Add(usize),
    Bind(usize, usize, Lab),
    Put(usize, Vec<u8>),
}

#[derive(Debug, Clone, PartialEq, Eq)]
pub struct SliceObs {
    pub keys: Vec<usize>,
    pub kids: Vec<(usize, Vec<(Lab, usize)>)>,
    /// Debug text of the slice (implementation side only; empty on the model side)
    pub debug: String,
}

/// What the implementation returned.
#[derive(Debug, Clone, PartialEq, Eq)]
pub enum Ret {
    Unit,
    Data(Option<Vec<u8>>),
    Id(usize),
    Kid(Option<usize>),
    Kids(Vec<(Lab, usize)>),
    Slice(Result<SliceObs, String>),
    Merge(Result<(), String>),
    Script(Result<usize, String>),
    SaveLoad(Result<usize, String>),
    Skipped,
}

/// What the model says about the call.
#[derive(Debug, Clone, PartialEq, Eq)]
pub enum Exp {
    None,
    Add { created: bool, stale: bool, grouped: bool },
    Data(DataOutcome),
    Kid(Option<usize>),
    Kids(Vec<(Lab, usize)>),
    Slice(SliceObs),
    /// equivalent primitive calls (with the ids the implementation chose)
    Grafted { prims: Vec<Prim>, new_ids: Vec<usize> },
    /// the implementation's result cannot be explained as a graft
    Broken(String),
}

#[derive(Debug, Clone)]
pub struct StepInfo {
    pub idx: usize,
    pub call: Call,
    pub skipped: bool,
    pub keys_before: Vec<usize>,
    pub keys_after: Vec<usize>,
    pub ret: Ret,
    pub panicked: Option<String>,
    pub exp: Exp,
    /// by the call history (not the model): this data() is the first read since the put
    pub hist_first_read: bool,
    /// the model's alive set differs from keys() after this call
    pub desync: bool,
    /// merge only: how the right-hand graph's complete observation changed (None = unchanged)
    pub h_changed: Option<String>,
}

/// Facts derived from the call history and the observed results only.
#[derive(Debug, Clone, Default)]
pub struct Hist {
    pub inc: BTreeMap<usize, u32>,
    uf_parent: Vec<usize>,
    node_of: BTreeMap<(usize, u32), usize>,
    pub bound: BTreeSet<(usize, u32)>,
    pub unread: BTreeSet<usize>,
    pub returned: BTreeSet<usize>,
}

impl Hist {
    fn node(&mut self, v: usize) -> usize {
        let k = (v, *self.inc.get(&v).unwrap_or(&0));
        if let Some(i) = self.node_of.get(&k) {
            return *i;
        }
        let i = self.uf_parent.len();
        self.uf_parent.push(i);
        self.node_of.insert(k, i);
        i
    }
    fn find(&mut self, mut i: usize) -> usize {
        while self.uf_parent[i] != i {
            let p = self.uf_parent[i];
            self.uf_parent[i] = self.uf_parent[p];
            i = self.uf_parent[i];
        }
        i
    }
    pub fn key(&self, v: usize) -> (usize, u32) {
        (v, *self.inc.get(&v).unwrap_or(&0))
    }
    pub fn connected(&mut self, a: usize, b: usize) -> bool {
        let (x, y) = (self.node(a), self.node(b));
        self.find(x) == self.find(y)
    }
    pub fn was_bound(&self, v: usize) -> bool {
        self.bound.contains(&self.key(v))
    }
    fn on_add(&mut self, v: usize, was_present: bool) {
        if !was_present {
            *self.inc.entry(v).or_insert(0) += 1;
            self.unread.remove(&v);
        }
    }
    fn on_bind(&mut self, a: usize, b: usize) {
        let (x, y) = (self.node(a), self.node(b));
        let (rx, ry) = (self.find(x), self.find(y));
        if rx != ry {
            self.uf_parent[rx] = ry;
        }
        let (ka, kb) = (self.key(a), self.key(b));
        self.bound.insert(ka);
        self.bound.insert(kb);
    }
    fn on_put(&mut self, v: usize) {
        self.unread.insert(v);
    }
}

static IMG_COUNTER: AtomicU64 = AtomicU64::new(0);

pub fn tmp_dir() -> PathBuf {
    let base = if std::path::Path::new("/dev/shm").is_dir() {
        PathBuf::from("/dev/shm")
    } else {
        PathBuf::from("/verif/target/tmp")
    };
    let d = base.join(format!("svcheck-{}", std::process::id()));
    let _ = std::fs::create_dir_all(&d);
    d
}

pub fn tmp_file(tag: &str) -> PathBuf {
    let c = IMG_COUNTER.fetch_add(1, Ordering::Relaxed);
    tmp_dir().join(format!("{tag}-{c}"))
}

/// Every other time the path a graph is saved to already holds an older checkpoint that is
/// LONGER than most images: a valid image of another graph written by save() itself, or
/// (every fourth time) a file of other content. save() must replace it.
pub fn older_checkpoint(p: &std::path::Path, n: usize, sel: usize) {
    match sel % 4 {
        1 => {
            let mut older = new_graph(n, 6);
            older.add(0);
            older.put(0, &hex_of(&vec![0xB7u8; 20_000]));
            let _ = older.save(p);
        }
        3 => {
            let _ = std::fs::write(p, vec![0xA5u8; 30_000]);
        }
        _ => {}
    }
}

pub fn cleanup_tmp() {
    let _ = std::fs::remove_dir_all(tmp_dir());
}

pub fn panic_text(e: Box<dyn std::any::Any + Send>) -> String {
    if let Some(s) = e.downcast_ref::<&str>() {
        (*s).to_string()
    } else if let Some(s) = e.downcast_ref::<String>() {
        s.clone()
    } else {
        "<non-string panic>".to_string()
    }
}

/// Build the right-hand graph of a merge through the public API.
pub fn build_tree(n: usize, spec: &TreeSpec) -> Box<dyn G> {
    let mut h = new_graph(n, spec.cap);
    // a tree whose ids are 0, 1, 2, … in node order is built the way a program that never chooses
    // ids would build it: every vertex through next_id()
    let dense = spec.nodes.iter().enumerate().all(|(i, nd)| nd.id == i);
    for nd in &spec.nodes {
        if dense {
            let id = h.next_id();
            h.add(id);
        }
        h.add(nd.id);
    }
    for e in &spec.extras {
        h.add(e.id);
    }
    for nd in &spec.nodes {
        if nd.read {
            if let Some(d) = &nd.data {
                h.put(nd.id, &hex_of(d));
                let _ = h.data(nd.id);
            }
        }
    }
    for e in &spec.extras {
        if e.read {
            if let Some(d) = &e.data {
                h.put(e.id, &hex_of(d));
                let _ = h.data(e.id);
            }
        }
    }
    for pass in 0..2 {
        for (i, nd) in spec.nodes.iter().enumerate() {
            let first = if spec.segment > 0 { i % spec.segment == 1 } else { !spec.pairs_first || i % 2 == 1 };
            if (pass == 0) != first {
                continue;
            }
            if let Some(p) = nd.parent {
                h.bind(spec.nodes[p].id, nd.id, nd.label.as_ref().unwrap().direct());
            }
        }
    }
    for e in &spec.extras {
        if let Some(p) = e.parent {
            h.bind(spec.extras[p].id, e.id, e.label.as_ref().unwrap().direct());
        }
        if let Some(l) = &e.points_to_root {
            h.bind(e.id, spec.root(), l.direct());
        }
    }
    for nd in &spec.nodes {
        if !nd.read {
            if let Some(d) = &nd.data {
                h.put(nd.id, &hex_of(d));
            }
        }
    }
    for e in &spec.extras {
        if !e.read {
            if let Some(d) = &e.data {
                h.put(e.id, &hex_of(d));
            }
        }
    }
    h
}

/// Graft `spec` onto the model at `gv` (DESIGN §4 "merge"). `idsrc(parent, label)` names
/// the id of a vertex that has to be created.
pub fn graft(
    m: &mut Model,
    spec: &TreeSpec,
    hidx: usize,
    gv: usize,
    idsrc: &mut dyn FnMut(&Model, usize, &Lab) -> Option<usize>,
    prims: &mut Vec<Prim>,
    new_ids: &mut Vec<usize>,
    check_limits: bool,
) -> Result<(), String> {
    if let Some(d) = &spec.nodes[hidx].data {
        m.put(gv, d);
        prims.push(Prim::Put(gv, d.clone()));
    }
    for c in spec.children(hidx) {
        let l = spec.nodes[c].label.clone().unwrap();
        match m.kid(gv, &l) {
            Some(t) => {
                if !m.present(t) {
                    return Err(format!("edge {gv}.{} points to absent {t}", l.text()));
                }
                graft(m, spec, c, t, idsrc, prims, new_ids, check_limits)?;
            }
            None => {
                let id = idsrc(m, gv, &l).ok_or_else(|| {
                    format!("no vertex found for new path element {gv}.{}", l.text())
                })?;
                if id >= m.cap {
                    return Err(format!("new vertex id {id} is not below the capacity"));
                }
                if m.present(id) {
                    return Err(format!(
                        "vertex {id} used for new path element {gv}.{} was already present",
                        l.text()
                    ));
                }
                m.add(id);
                if check_limits && !m.can_bind(gv, id, &l) {
                    return Err("limit".into());
                }
                m.bind(gv, id, &l);
                prims.push(Prim::Add(id));
                prims.push(Prim::Bind(gv, id, l.clone()));
                new_ids.push(id);
                graft(m, spec, c, id, idsrc, prims, new_ids, check_limits)?;
            }
        }
    }
    Ok(())
}

/// Dry run of a merge on a copy of the model: Some(number of new vertices) when the
/// call is inside the preconditions and the capacity limits.
pub fn plan_merge(m: &Model, spec: &TreeSpec, left: usize) -> Option<usize> {
    if !m.present(left) || !m.is_tree_from(left) || !spec.extras.is_empty() {
        return None;
    }
    let mut sim = m.clone();
    let mut free: Vec<usize> = (m.floor..m.cap).filter(|i| !m.present(*i)).collect();
    free.reverse();
    let mut src = |_: &Model, _: usize, _: &Lab| free.pop();
    let mut prims = vec![];
    let mut new_ids = vec![];
    graft(&mut sim, spec, 0, left, &mut src, &mut prims, &mut new_ids, true).ok()?;
    Some(new_ids.len())
}

/// The fixed edge predicate of Call::SliceSome.
pub fn edge_accepted(seed: u16, from: usize, to: usize, l: &Lab) -> bool {
    use std::hash::{Hash, Hasher};
    let mut h = std::collections::hash_map::DefaultHasher::new();
    (seed, from, to, l).hash(&mut h);
    h.finish() & 1 == 0
}

pub fn observe_slice(s: &dyn G) -> SliceObs {
    let keys = s.keys();
    let kids = keys
        .iter()
        .map(|k| {
            (
                *k,
                s.kids(*k)
                    .iter()
                    .map(|(l, t)| (Lab::from_label(l), *t))
                    .collect::<Vec<_>>(),
            )
        })
        .collect();
    SliceObs { keys, kids, debug: s.debug() }
}

pub struct Runner {
    pub cfg: Cfg,
    /// an older copy kept aside by Call::Snapshot
    pub snapshot: Option<Box<dyn G>>,
    pub g: Box<dyn G>,
    pub m: Model,
    pub hist: Hist,
    pub done: Vec<Call>,
    pub steps: usize,
    pub desynced: bool,
    /// blind run: keys() is not asked around every call (the model's alive set stands in for it),
    /// so that nothing the implementation postpones until somebody looks is woken by the harness;
    /// the caller compares everything once, at the end (`engine::final_look`)
    pub blind: bool,
}

impl Runner {
    pub fn new(cfg: Cfg) -> Self {
        // the foreign objects of Call::Noise start afresh with every history (replay files
        // reproduce from a fresh process)
        crate::noise::reset();
        Self {
            cfg,
            snapshot: None,
            g: new_graph(cfg.n, cfg.cap),
            m: Model::new(cfg.n, cfg.cap),
            hist: Hist::default(),
            done: vec![],
            steps: 0,
            desynced: false,
            blind: false,
        }
    }

    /// Is the call inside the documented preconditions and the capacity limits,
    /// judged on the reference model?
    pub fn valid(&self, c: &Call) -> bool {
        let m = &self.m;
        match c {
            Call::Add(v) => *v < m.cap,
            Call::Bind { a, b, l, parsed } => {
                *a < m.cap && *b < m.cap && m.can_bind(*a, *b, l) && (!*parsed || l.parse_roundtrips())
            }
            Call::Put(v, _) | Call::Data(v) | Call::Kid(v, _) | Call::Kids(v) => m.present(*v),
            Call::NextId | Call::NextIdAdd => m.allocator_room() >= 1,
            Call::Clone | Call::SaveLoad | Call::Snapshot | Call::RefreshSnapshot => true,
            Call::Slice(v) | Call::SliceSome(v, _) => m.present(*v) && m.reachable(*v).is_some_and(|r| r.len() <= 14),
            Call::SliceAny(v) => m.present(*v),
            Call::Checkpoint | Call::Noise(_) | Call::Masquerade => true,
            Call::CloneInto { cap, ids } => *cap >= 1 && ids.iter().all(|i| i < cap),
            Call::Merge { h, left } => {
                h.nodes.iter().all(|n| n.id < h.cap)
                    && *left < m.cap
                    && plan_merge(m, h, *left).is_some_and(|k| k <= m.allocator_room())
            }
            Call::ScriptNew { parent, l } => {
                if !m.present(*parent) || m.allocator_room() < 1 || !l.parse_roundtrips() {
                    return false;
                }
                let pv = m.get(*parent);
                if pv.edges.len() >= m.n && !pv.edges.iter().any(|(x, _)| x == l) {
                    return false;
                }
                match pv.group {
                    None => m.groups_alive() < crate::model::MAX_GROUPS,
                    Some(g) => m.group_size(g) < crate::model::MAX_GROUP,
                }
            }
        }
    }

    /// After the alive sets have diverged (only tolerated in C03/C04 runs): is the call also
    /// inside the preconditions judged on the implementation's own keys()? Calls with a
    /// wider footprint are not made any more.
    pub fn valid_on_impl(&self, c: &Call) -> bool {
        let keys = self.g.keys();
        let has = |v: &usize| keys.contains(v);
        match c {
            Call::Add(_) | Call::NextId | Call::NextIdAdd => true,
            Call::Bind { a, b, .. } => has(a) && has(b),
            Call::Put(v, _) | Call::Data(v) | Call::Kid(v, _) | Call::Kids(v) => has(v),
            _ => false,
        }
    }

    fn apply_prims_hist(&mut self, prims: &[Prim], keys_before: &[usize]) {
        let mut present: BTreeSet<usize> = keys_before.iter().copied().collect();
        for p in prims {
            match p {
                Prim::Add(v) => {
                    self.hist.on_add(*v, present.contains(v));
                    present.insert(*v);
                }
                Prim::Bind(a, b, _) => self.hist.on_bind(*a, *b),
                Prim::Put(v, _) => self.hist.on_put(*v),
            }
        }
    }

    /// Execute one call on the implementation and on the model.
    pub fn step(&mut self, call: &Call) -> StepInfo {
        let idx = self.steps;
        self.steps += 1;
        if !self.valid(call) {
            return StepInfo {
                idx,
                call: call.clone(),
                skipped: true,
                keys_before: vec![],
                keys_after: vec![],
                ret: Ret::Skipped,
                panicked: None,
                exp: Exp::None,
                hist_first_read: false,
                desync: false,
                h_changed: None,
            };
        }
        self.done.push(call.clone());
        // a blind run looks at the implementation only where the model needs the answer
        let blind = self.blind && !matches!(call, Call::ScriptNew { .. } | Call::Merge { .. });
        let keys_before = if blind { self.m.alive() } else { self.g.keys() };
        let n = self.cfg.n;
        let cap0 = self.cfg.cap;
        let mut replacement: Option<Box<dyn G>> = None;
        let mut hgraph: Option<Box<dyn G>> = None;
        let mut h_before = None;
        if let Call::Merge { h, .. } = call {
            let hg = build_tree(n, h);
            h_before = crate::obs::try_observe(&*hg, crate::obs::ObsLevel::FULL).ok();
            hgraph = Some(hg);
        }
        let mut new_snapshot: Option<Box<dyn G>> = None;
        let mut old_snapshot = if matches!(call, Call::RefreshSnapshot) { self.snapshot.take() } else { None };
        let g = &mut self.g;
        let res = catch_unwind(AssertUnwindSafe(|| -> Ret {
            match call {
                Call::Snapshot => {
                    new_snapshot = Some(g.clone_box());
                    Ret::Unit
                }
                Call::RefreshSnapshot => {
                    match old_snapshot.take() {
                        Some(mut s) => {
                            let _ = s.clone_from_dyn(&**g);
                            replacement = Some(s);
                        }
                        None => replacement = Some(g.clone_box()),
                    }
                    Ret::Unit
                }
                Call::Add(v) => {
                    g.add(*v);
                    Ret::Unit
                }
                Call::Bind { a, b, l, parsed } => {
                    let lab = if *parsed { l.parsed().unwrap() } else { l.direct() };
                    g.bind(*a, *b, lab);
                    Ret::Unit
                }
                Call::Put(v, d) => {
                    g.put(*v, &crate::graph::hex_arg(d));
                    Ret::Unit
                }
                Call::Data(v) => Ret::Data(g.data(*v).map(|h| h.to_vec())),
                Call::NextId => Ret::Id(g.next_id()),
                Call::NextIdAdd => {
                    let id = g.next_id();
                    g.add(id);
                    Ret::Id(id)
                }
                Call::Kid(v, l) => Ret::Kid(g.kid(*v, l.direct())),
                Call::Kids(v) => Ret::Kids(
                    g.kids(*v)
                        .iter()
                        .map(|(l, t)| (Lab::from_label(l), *t))
                        .collect(),
                ),
                Call::Clone => {
                    replacement = Some(g.clone_box());
                    Ret::Unit
                }
                Call::SaveLoad => {
                    let p = tmp_file("img");
                    older_checkpoint(&p, n, idx);
                    let r = g.save(&p).and_then(|sz| {
                        let l = g.load_same(&p)?;
                        Ok((sz, l))
                    });
                    let _ = std::fs::remove_file(&p);
                    match r {
                        Ok((sz, l)) => {
                            replacement = Some(l);
                            Ret::SaveLoad(Ok(sz))
                        }
                        Err(e) => Ret::SaveLoad(Err(format!("{e:#}"))),
                    }
                }
                Call::Slice(v) => Ret::Slice(
                    g.slice(*v)
                        .map(|s| observe_slice(&*s))
                        .map_err(|e| format!("{e:#}")),
                ),
                Call::Masquerade => {
                    let keep = g.clone_box();
                    let cap = cap0.max(1);
                    let k = cap.min(10);
                    let mut other = new_graph(n, cap);
                    for v in 0..k {
                        other.add(v);
                    }
                    let foo = crate::lab::Lab::Str("foo".into()).direct();
                    for v in 0..k.saturating_sub(1) {
                        other.bind(v, v + 1, crate::lab::Lab::Alpha(0).direct());
                        if n >= 2 {
                            other.bind(v, (v + 2) % k, foo);
                        }
                    }
                    if k >= 3 {
                        other.put(1, &hex_of(&[0x4D; 9]));
                        other.put(2, &hex_of(&[1, 2]));
                    }
                    let _ = g.clone_from_dyn(&*other);
                    let _ = g.inspect(0);
                    let _ = g.to_xml();
                    let _ = g.to_dot();
                    let _ = g.debug();
                    // the last answers given at this address are those about the lowest ids
                    for v in (0..k).rev() {
                        let _ = g.slice(v);
                        let _ = g.kids(v);
                        let _ = g.v_print(v);
                        let _ = g.kid(v, foo);
                        let _ = g.kid(v, crate::lab::Lab::Alpha(0).direct());
                    }
                    let _ = g.clone_from_dyn(&*keep);
                    Ret::Unit
                }
                Call::Noise(k) => {
                    crate::noise::disturb(n, *k);
                    Ret::Unit
                }
                Call::Checkpoint => {
                    let p = tmp_file("ckpt");
                    let r = g.save(&p);
                    let _ = std::fs::remove_file(&p);
                    Ret::SaveLoad(r.map_err(|e| format!("{e:#}")))
                }
                Call::SliceAny(v) => Ret::Slice(
                    g.slice(*v)
                        .map(|s| observe_slice(&*s))
                        .map_err(|e| format!("{e:#}")),
                ),
                Call::SliceSome(v, seed) => Ret::Slice(
                    g.slice_some(*v, &|a, b, l| edge_accepted(*seed, a, b, &Lab::from_label(&l)))
                        .map(|s| observe_slice(&*s))
                        .map_err(|e| format!("{e:#}")),
                ),
                Call::CloneInto { cap, ids } => {
                    // the destination has vertices, groups (slots 2, 3, ..) and unread data of its own
                    let mut other = new_graph(n, *cap);
                    for i in ids {
                        other.add(*i);
                    }
                    for (k, pair) in ids.chunks(2).enumerate() {
                        if pair.len() == 2 && pair[0] != pair[1] && k < 6 {
                            other.bind(pair[0], pair[1], crate::lab::Lab::Alpha(0).direct());
                            other.put(pair[0], &hex_of(&[0xCD; 10]));
                        }
                    }
                    let _ = other.clone_from_dyn(&**g);
                    replacement = Some(other);
                    Ret::Unit
                }
                Call::Merge { h, left } => Ret::Merge(
                    g.merge(&**hgraph.as_ref().unwrap(), *left, h.root())
                        .map_err(|e| format!("{e:#}")),
                ),
                Call::ScriptNew { parent, l } => Ret::Script(
                    g.deploy(&format!("ADD($ν1); BIND(ν{parent}, $ν1, {});", l.text()))
                        .map_err(|e| format!("{e:#}")),
                ),
            }
        }));
        let (ret, panicked) = match res {
            Ok(r) => (r, None),
            Err(e) => (Ret::Unit, Some(panic_text(e))),
        };
        if let Some(r) = replacement {
            self.g = r;
        }
        if let Some(sn) = new_snapshot {
            self.snapshot = Some(sn);
        }
        let mut keys_after = if blind {
            vec![]
        } else {
            catch_unwind(AssertUnwindSafe(|| self.g.keys())).unwrap_or_else(|_| vec![usize::MAX])
        };

        // ---- model + history facts
        let mut hist_first_read = false;
        let exp = match call {
            Call::Add(v) => {
                let stale = self.m.stale[*v];
                let grouped = self.m.present(*v) && self.m.get(*v).group.is_some();
                let created = self.m.add(*v);
                self.hist.on_add(*v, keys_before.contains(v));
                Exp::Add { created, stale, grouped }
            }
            Call::Bind { a, b, l, .. } => {
                self.m.bind(*a, *b, l);
                self.hist.on_bind(*a, *b);
                Exp::None
            }
            Call::Put(v, d) => {
                self.m.put(*v, d);
                self.hist.on_put(*v);
                Exp::None
            }
            Call::Data(v) => {
                let o = self.m.data(*v);
                if let Ret::Data(Some(_)) = &ret {
                    if self.hist.unread.remove(v) {
                        hist_first_read = true;
                    }
                }
                Exp::Data(o)
            }
            Call::NextId => {
                if let Ret::Id(id) = &ret {
                    self.m.note_next_id(*id);
                }
                Exp::None
            }
            Call::NextIdAdd => {
                if let Ret::Id(id) = &ret {
                    self.m.note_next_id(*id);
                    if *id < self.m.cap {
                        let stale = self.m.stale[*id];
                        let created = self.m.add(*id);
                        self.hist.on_add(*id, keys_before.contains(id));
                        Exp::Add { created, stale, grouped: false }
                    } else {
                        Exp::Broken(format!("next_id returned {id} >= capacity"))
                    }
                } else {
                    Exp::None
                }
            }
            Call::Kid(v, l) => Exp::Kid(self.m.kid(*v, l)),
            Call::Kids(v) => Exp::Kids(self.m.get(*v).edges.clone()),
            Call::Clone | Call::Snapshot | Call::RefreshSnapshot | Call::CloneInto { .. } | Call::SliceSome(..) | Call::SliceAny(_) | Call::Checkpoint | Call::Noise(_) | Call::Masquerade => Exp::None,
            Call::SaveLoad => {
                self.m.reset_allocator();
                self.hist.returned.clear();
                Exp::None
            }
            Call::Slice(v) => {
                let r = self.m.reachable(*v).unwrap();
                let keys: Vec<usize> = r.iter().copied().collect();
                let kids = keys
                    .iter()
                    .map(|k| (*k, self.m.get(*k).edges.clone()))
                    .collect();
                Exp::Slice(SliceObs { keys, kids, debug: String::new() })
            }
            Call::Merge { h, left } => {
                if panicked.is_none() && matches!(ret, Ret::Merge(Ok(()))) {
                    let mut prims = vec![];
                    let mut new_ids = vec![];
                    let gref = &self.g;
                    let mut src = |_: &Model, p: usize, l: &Lab| {
                        catch_unwind(AssertUnwindSafe(|| gref.kid(p, l.direct()))).unwrap_or(None)
                    };
                    let mut sim = self.m.clone();
                    match graft(&mut sim, h, 0, *left, &mut src, &mut prims, &mut new_ids, false) {
                        Ok(()) => {
                            self.m = sim;
                            for id in &new_ids {
                                if *id + 1 > self.m.floor {
                                    self.m.floor = *id + 1;
                                }
                            }
                            self.apply_prims_hist(&prims, &keys_before);
                            Exp::Grafted { prims, new_ids }
                        }
                        Err(e) => Exp::Broken(e),
                    }
                } else {
                    Exp::Broken("merge of two trees did not return Ok".into())
                }
            }
            Call::ScriptNew { parent, l } => {
                let newv: Vec<usize> = keys_after
                    .iter()
                    .copied()
                    .filter(|k| !keys_before.contains(k))
                    .collect();
                if panicked.is_none() && matches!(ret, Ret::Script(Ok(_))) && newv.len() == 1 {
                    let id = newv[0];
                    if id < self.m.cap && !self.m.present(id) {
                        self.m.add(id);
                        self.m.bind(*parent, id, l);
                        if id + 1 > self.m.floor {
                            self.m.floor = id + 1;
                        }
                        let prims = vec![Prim::Add(id), Prim::Bind(*parent, id, l.clone())];
                        self.apply_prims_hist(&prims, &keys_before);
                        Exp::Grafted { prims, new_ids: vec![id] }
                    } else {
                        Exp::Broken(format!("script variable got id {id} which was present"))
                    }
                } else {
                    Exp::Broken(format!(
                        "script did not create exactly one vertex (new: {newv:?}, ret: {ret:?})"
                    ))
                }
            }
        };
        if blind {
            keys_after = self.m.alive();
        }
        let desync = keys_after != self.m.alive();
        if desync {
            self.desynced = true;
        }
        let mut h_changed = None;
        if let (Some(hg), Some(b)) = (&hgraph, &h_before) {
            match crate::obs::try_observe(&**hg, crate::obs::ObsLevel::FULL) {
                Ok(a) => h_changed = crate::obs::diff(b, &a),
                Err(e) => h_changed = Some(format!("observing h after the merge panicked: {e}")),
            }
        }
        StepInfo {
            idx,
            call: call.clone(),
            skipped: false,
            keys_before,
            keys_after,
            ret,
            panicked,
            exp,
            hist_first_read,
            desync,
            h_changed,
        }
    }
}
