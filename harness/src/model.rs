//! The reference model (DESIGN §4): a deliberately naive implementation of what the
//! property statements say, in ordinary collections. It never looks at the
//! implementation's state.

use crate::lab::Lab;
use std::collections::{BTreeMap, BTreeSet};

pub const MAX_GROUP: usize = 16;
pub const MAX_GROUPS: usize = 14;

#[derive(Debug, Clone, PartialEq, Eq)]
pub struct MVertex {
    /// first-binding order; rebinding replaces the target in place
    pub edges: Vec<(Lab, usize)>,
    pub data: Option<Vec<u8>>,
    pub unread: bool,
    pub group: Option<u32>,
    pub incarnation: u32,
}

#[derive(Debug, Clone)]
pub struct Model {
    pub n: usize,
    pub cap: usize,
    pub v: Vec<Option<MVertex>>,
    pub incs: Vec<u32>,
    pub groups: BTreeMap<u32, BTreeSet<usize>>,
    pub next_gid: u32,
    /// ids returned by next_id() in this lineage (informational; the C05 oracle keeps its own)
    pub returned: BTreeSet<usize>,
    /// 1 + largest id handed out by the allocator so far (the documented allocator position)
    pub floor: usize,
    /// for the generator: did the slot of an absent id hold edges/data when it died
    pub stale: Vec<bool>,
    /// the edges a vertex had when it was collected (what a recycled slot may wrongly remember)
    pub grave: Vec<Vec<(Lab, usize)>>,
    pub collections: u64,
    /// group slots were freed at least once (for non-triviality rules)
    pub groups_died: u64,
}

#[derive(Debug, Clone, PartialEq, Eq)]
pub struct DataOutcome {
    pub bytes: Option<Vec<u8>>,
    pub first_read: bool,
    pub removed: Vec<usize>,
}

impl Model {
    pub fn new(n: usize, cap: usize) -> Self {
        Self {
            n,
            cap,
            v: vec![None; cap],
            incs: vec![0; cap],
            groups: BTreeMap::new(),
            next_gid: 0,
            returned: BTreeSet::new(),
            floor: 0,
            stale: vec![false; cap],
            grave: vec![vec![]; cap],
            collections: 0,
            groups_died: 0,
        }
    }

    pub fn present(&self, v: usize) -> bool {
        v < self.cap && self.v[v].is_some()
    }

    pub fn alive(&self) -> Vec<usize> {
        (0..self.cap).filter(|i| self.v[*i].is_some()).collect()
    }

    pub fn absent_ids(&self) -> Vec<usize> {
        (0..self.cap).filter(|i| self.v[*i].is_none()).collect()
    }

    pub fn get(&self, v: usize) -> &MVertex {
        self.v[v].as_ref().expect("model: vertex absent")
    }

    pub fn groups_alive(&self) -> usize {
        self.groups.len()
    }

    pub fn group_of(&self, v: usize) -> Option<u32> {
        self.v[v].as_ref().and_then(|x| x.group)
    }

    pub fn group_size(&self, g: u32) -> usize {
        self.groups.get(&g).map_or(0, BTreeSet::len)
    }

    pub fn unread_in_group(&self, g: u32) -> usize {
        self.groups
            .get(&g)
            .map_or(0, |m| m.iter().filter(|x| self.get(**x).unread).count())
    }

    pub fn kid(&self, v: usize, l: &Lab) -> Option<usize> {
        self.get(v).edges.iter().find(|(a, _)| a == l).map(|(_, t)| *t)
    }

    // ---- preconditions and limits -------------------------------------------------

    /// Is `bind(a,b,l)` inside the documented preconditions and the capacity limits?
    pub fn can_bind(&self, a: usize, b: usize, l: &Lab) -> bool {
        if a == b || !self.present(a) || !self.present(b) {
            return false;
        }
        let va = self.get(a);
        if va.edges.len() >= self.n && !va.edges.iter().any(|(x, _)| x == l) {
            return false;
        }
        match (va.group, self.get(b).group) {
            (None, None) => self.groups_alive() < MAX_GROUPS,
            (Some(g), None) | (None, Some(g)) => self.group_size(g) < MAX_GROUP,
            (Some(_), Some(_)) => true,
        }
    }

    // ---- transitions ---------------------------------------------------------------

    /// Returns true if the vertex was created (it was absent).
    pub fn add(&mut self, v: usize) -> bool {
        if self.v[v].is_some() {
            return false;
        }
        self.incs[v] += 1;
        self.stale[v] = false;
        self.v[v] = Some(MVertex {
            edges: vec![],
            data: None,
            unread: false,
            group: None,
            incarnation: self.incs[v],
        });
        true
    }

    pub fn bind(&mut self, a: usize, b: usize, l: &Lab) {
        {
            let va = self.v[a].as_mut().expect("model: bind from absent");
            if let Some(e) = va.edges.iter_mut().find(|(x, _)| x == l) {
                e.1 = b;
            } else {
                va.edges.push((l.clone(), b));
            }
        }
        let ga = self.get(a).group;
        let gb = self.get(b).group;
        match (ga, gb) {
            (None, None) => {
                let g = self.next_gid;
                self.next_gid += 1;
                self.groups.insert(g, [a, b].into_iter().collect());
                self.v[a].as_mut().unwrap().group = Some(g);
                self.v[b].as_mut().unwrap().group = Some(g);
            }
            (Some(g), None) => {
                self.groups.get_mut(&g).unwrap().insert(b);
                self.v[b].as_mut().unwrap().group = Some(g);
            }
            (None, Some(g)) => {
                self.groups.get_mut(&g).unwrap().insert(a);
                self.v[a].as_mut().unwrap().group = Some(g);
            }
            (Some(_), Some(_)) => {}
        }
    }

    pub fn put(&mut self, v: usize, d: &[u8]) {
        let x = self.v[v].as_mut().expect("model: put on absent");
        x.data = Some(d.to_vec());
        x.unread = true;
    }

    pub fn data(&mut self, v: usize) -> DataOutcome {
        let x = self.v[v].as_mut().expect("model: data on absent");
        let bytes = x.data.clone();
        if bytes.is_none() {
            return DataOutcome {
                bytes,
                first_read: false,
                removed: vec![],
            };
        }
        if !x.unread {
            return DataOutcome {
                bytes,
                first_read: false,
                removed: vec![],
            };
        }
        x.unread = false;
        let mut removed = vec![];
        if let Some(g) = x.group {
            if self.unread_in_group(g) == 0 {
                let members = self.groups.remove(&g).unwrap();
                for m in members {
                    let dead = self.v[m].take().unwrap();
                    self.stale[m] = !dead.edges.is_empty() || dead.data.is_some();
                    self.grave[m] = dead.edges.clone();
                    removed.push(m);
                }
                self.collections += removed.len() as u64;
                self.groups_died += 1;
            }
        }
        DataOutcome {
            bytes,
            first_read: true,
            removed,
        }
    }

    /// Record what the allocator returned (the model does not predict it).
    pub fn note_next_id(&mut self, id: usize) {
        self.returned.insert(id);
        if id + 1 > self.floor {
            self.floor = id + 1;
        }
    }

    /// Does the documented domain of next_id() hold: an absent id at or above the
    /// allocator position remains (and `extra` more after it)?
    pub fn allocator_room(&self) -> usize {
        (self.floor..self.cap).filter(|i| self.v[*i].is_none()).count()
    }

    /// After save+load the allocator restarts from the lowest absent id.
    pub fn reset_allocator(&mut self) {
        self.floor = 0;
        self.returned.clear();
    }

    // ---- graph helpers on the model ------------------------------------------------

    /// Everything reachable from v along edges (targets may be absent); None when an
    /// absent vertex is reachable.
    pub fn reachable(&self, v: usize) -> Option<BTreeSet<usize>> {
        let mut seen = BTreeSet::new();
        let mut todo = vec![v];
        seen.insert(v);
        while let Some(x) = todo.pop() {
            let vx = self.v[x].as_ref()?;
            for (_, t) in &vx.edges {
                if !self.present(*t) {
                    return None;
                }
                if seen.insert(*t) {
                    todo.push(*t);
                }
            }
        }
        Some(seen)
    }

    /// Is the sub-graph reachable from v a tree of present vertices (every reachable
    /// vertex is reached by exactly one edge of the reachable part, v by none)?
    pub fn is_tree_from(&self, v: usize) -> bool {
        let Some(r) = self.reachable(v) else {
            return false;
        };
        let mut indeg: BTreeMap<usize, usize> = BTreeMap::new();
        for x in &r {
            for (_, t) in &self.get(*x).edges {
                *indeg.entry(*t).or_insert(0) += 1;
            }
        }
        if indeg.contains_key(&v) {
            return false;
        }
        r.iter().all(|x| *x == v || indeg.get(x) == Some(&1))
    }
}
