//! Mirror of `sodg::Label` that the reference model keys on, independent of the
//! implementation's own `Eq`/`Ord`/`Hash` on labels.

use serde::{Deserialize, Serialize};
use sodg::Label;
use std::str::FromStr;

#[derive(Debug, Clone, PartialEq, Eq, PartialOrd, Ord, Hash, Serialize, Deserialize)]
pub enum Lab {
    Alpha(u64),
    Greek(char),
    /// the up-to-8 characters of a text label with the trailing padding blanks removed;
    /// canonical text labels are 2..=8 non-space characters, but the value space of the
    /// public enum is larger (inner/leading blanks, a single character, an α prefix) and
    /// the mirror keeps such values exactly
    Str(String),
}

impl Lab {
    /// The text form the documentation gives to the label (printing drops every blank).
    pub fn text(&self) -> String {
        match self {
            Lab::Alpha(i) => format!("α{i}"),
            Lab::Greek(c) => format!("{c}"),
            Lab::Str(s) => s.chars().filter(|c| *c != ' ').collect(),
        }
    }

    /// Does the printed text parse back to this very value (true for every canonical label)?
    pub fn parse_roundtrips(&self) -> bool {
        self.parsed().is_ok_and(|l| Lab::from_label(&l) == *self)
    }

    /// Construct the implementation's label directly from the enum variants.
    pub fn direct(&self) -> Label {
        match self {
            Lab::Alpha(i) => Label::Alpha(*i as usize),
            Lab::Greek(c) => Label::Greek(*c),
            Lab::Str(s) => {
                let mut a = [' '; 8];
                for (i, c) in s.chars().enumerate().take(8) {
                    a[i] = c;
                }
                Label::Str(a)
            }
        }
    }

    /// Construct the implementation's label through its text parser.
    pub fn parsed(&self) -> Result<Label, String> {
        Label::from_str(&self.text()).map_err(|e| e.to_string())
    }

    /// Map an implementation label back to the mirror.
    pub fn from_label(l: &Label) -> Lab {
        match l {
            Label::Alpha(i) => Lab::Alpha(*i as u64),
            Label::Greek(c) => Lab::Greek(*c),
            Label::Str(a) => {
                let s: String = a.iter().collect();
                Lab::Str(s.trim_end_matches(' ').to_string())
            }
        }
    }
}

/// The fixed pool of labels the history generators draw from: all three variants,
/// ASCII and multi-byte characters, short and 8-character texts.
pub fn pool() -> Vec<Lab> {
    let mut v = vec![
        Lab::Alpha(0),
        Lab::Alpha(1),
        Lab::Alpha(2),
        Lab::Alpha(3),
        Lab::Alpha(17),
        Lab::Alpha(4_000_000_000),
        Lab::Alpha(1 << 40),
        Lab::Alpha(u64::MAX),
        Lab::Alpha(255),
        Lab::Alpha(256),
        Lab::Greek('x'),
        Lab::Greek('a'),
        Lab::Greek('Z'),
        Lab::Greek('ρ'),
        Lab::Greek('σ'),
        Lab::Greek('φ'),
        Lab::Greek('π'),
        Lab::Greek('𝜑'),
        Lab::Str("ab".into()),
        Lab::Str("foo".into()),
        Lab::Str("bar".into()),
        Lab::Str("hello".into()),
        Lab::Str("abcdefgh".into()),
        Lab::Str("+bar".into()),
        Lab::Str("λx".into()),
        Lab::Str("ρρ".into()),
        Lab::Str("a1".into()),
        Lab::Str("x-y_z".into()),
        Lab::Str("ABCDEFGH".into()),
        Lab::Str("абвгдежз".into()),
        Lab::Str("𝜑𝜑".into()),
        Lab::Greek('0'),
        Lab::Greek('+'),
        // white space other than U+0020 is an ordinary character of a label
        Lab::Str("x\u{a0}y".into()),
        Lab::Str("a\tb".into()),
        Lab::Greek('\u{3000}'),
        // ... also at the end of a text (only U+0020 is padding); no line breaks here: the
        // line-oriented printers (DOT, inspect, Debug) cannot show them unambiguously and the
        // harness reads those texts line by line (line breaks are in the character sweep of
        // the checks that do not parse text)
        Lab::Str("foo\t".into()),
        Lab::Str("ab\u{a0}".into()),
        Lab::Str("foo\u{3000}".into()),
        // 8 characters of 4 bytes each (32 bytes of UTF-8)
        Lab::Str("𝜑𝜓𝜔𝛼𝛽𝛾𝛿𝜀".into()),
        // families of labels that collide under common lossy comparisons: code points equal
        // modulo 256 ("ах" = U+0430 U+0445 vs "0E"), modulo 65536 (U+10430 vs U+0430), ASCII case
        Lab::Str("ах".into()),
        Lab::Str("0E".into()),
        Lab::Greek('\u{10430}'),
        Lab::Greek('\u{0430}'),
        Lab::Greek('0'),
        Lab::Str("Foo".into()),
        Lab::Str("FOO".into()),
        Lab::Alpha(1 << 32),
        Lab::Alpha((1 << 32) + 1),
        // families with a long common prefix (more than 16 bytes of UTF-8 for the wide ones)
        // that differ in the last character only
        Lab::Str("数据节点甲一".into()),
        Lab::Str("数据节点甲二".into()),
        Lab::Str("abcdefgX".into()),
        Lab::Str("абвгдежи".into()),
        Lab::Str("𝜑𝜓𝜔𝛼𝛽𝛾𝛿𝜁".into()),
        // each text is a proper prefix of the next (a comparison that stops at the shorter one, or
        // at half of the array, confuses them)
        Lab::Str("ab".into()),
        Lab::Str("abc".into()),
        Lab::Str("abcd".into()),
        Lab::Str("abcde".into()),
        Lab::Str("abcdef".into()),
        Lab::Str("φ+α1".into()),
        Lab::Str("φ+α1xy".into()),
        // a single character next to the index that equals its code point
        Lab::Alpha(120),
        Lab::Alpha(966),
        Lab::Greek('φ'),
    ];
    // enough distinct labels to fill a vertex with N = 16 and go one beyond
    for i in 0..10 {
        v.push(Lab::Str(format!("k{i}")));
    }
    // values of the public enum that are not canonical (they do not survive print+parse);
    // they are only ever constructed directly
    v.extend([
        Lab::Str("my x".into()),
        Lab::Str("my y".into()),
        Lab::Str(" a".into()),
        Lab::Str(" b".into()),
        Lab::Str("q".into()),
        Lab::Str("αx".into()),
        Lab::Greek('α'),
    ]);
    v
}

/// The canonical part of the pool: labels whose printed text parses back to themselves.
pub fn canonical_pool() -> Vec<Lab> {
    pool().into_iter().filter(Lab::parse_roundtrips).collect()
}
