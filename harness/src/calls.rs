//! The concrete call language of generated histories and replay files.

use crate::lab::Lab;
use serde::{Deserialize, Serialize};

#[derive(Debug, Clone, Copy, PartialEq, Eq, Hash, Serialize, Deserialize)]
pub struct Cfg {
    pub n: usize,
    pub cap: usize,
}

/// One vertex of a right-hand tree for merge(); `parent` indexes into `nodes`.
#[derive(Debug, Clone, PartialEq, Eq, Hash, Serialize, Deserialize)]
pub struct TNode {
    pub id: usize,
    pub parent: Option<usize>,
    pub label: Option<Lab>,
    pub data: Option<Vec<u8>>,
    /// the datum was read once in h before the merge (put+data before any bind)
    pub read: bool,
}

/// Extra present vertices of the right graph that are NOT reachable from the root
/// (C12): `parent` = None for an isolated vertex / root of a detached sub-tree, or the
/// index of another extra.
#[derive(Debug, Clone, PartialEq, Eq, Hash, Serialize, Deserialize)]
pub struct TExtra {
    pub id: usize,
    pub parent: Option<usize>,
    pub label: Option<Lab>,
    pub data: Option<Vec<u8>>,
    /// the extra points at the tree root (an ancestor of `right`), index None otherwise
    pub points_to_root: Option<Lab>,
    /// the extra's datum was read once (put+data before any bind, while it is ungrouped)
    #[serde(default)]
    pub read: bool,
}

#[derive(Debug, Clone, PartialEq, Eq, Hash, Serialize, Deserialize)]
pub struct TreeSpec {
    pub cap: usize,
    /// nodes[0] is the root (`right`); parents precede children
    pub nodes: Vec<TNode>,
    pub extras: Vec<TExtra>,
    /// bind the edges into odd-indexed nodes first, then the others: a chain built that way
    /// consists of separately formed pairs linked by cross-group edges (many groups)
    #[serde(default)]
    pub pairs_first: bool,
    /// > 0: nodes are taken in runs of `segment` (<= 15) consecutive indices; the first edge
    /// inside every run is bound first (one group per run), then all other edges in index
    /// order — a deep tree built that way keeps every group within 16 members
    #[serde(default)]
    pub segment: usize,
}

impl TreeSpec {
    pub fn root(&self) -> usize {
        self.nodes[0].id
    }
    pub fn children(&self, idx: usize) -> Vec<usize> {
        (0..self.nodes.len())
            .filter(|i| self.nodes[*i].parent == Some(idx))
            .collect()
    }
}

#[derive(Debug, Clone, PartialEq, Eq, Hash, Serialize, Deserialize)]
pub enum Call {
    Add(usize),
    /// `parsed`: the label is built through Label::from_str(text) instead of directly
    Bind {
        a: usize,
        b: usize,
        l: Lab,
        parsed: bool,
    },
    Put(usize, Vec<u8>),
    Data(usize),
    NextId,
    /// next_id() followed by add() of the returned id
    NextIdAdd,
    Kid(usize, Lab),
    Kids(usize),
    /// continue the history on g.clone()
    Clone,
    /// continue the history on load(save(g))
    SaveLoad,
    /// keep a copy aside: snapshot = g.clone()
    Snapshot,
    /// refresh the copy in place and go on with it: snapshot.clone_from(&g); g = snapshot
    /// (a plain g = g.clone() when no snapshot was taken)
    RefreshSnapshot,
    /// slice(v): observed, then discarded
    Slice(usize),
    /// slice_some(v, p) with p a fixed hash of (seed, from, to, label) accepting about half
    /// of the edges: observed, then discarded
    SliceSome(usize, u16),
    /// g.save(scratch path): a checkpoint is written from this very object and the work goes on
    /// with it (the file is discarded)
    Checkpoint,
    /// slice(v) whatever v reaches — also through edges that dangle since their target was
    /// collected: observed (keys and kids of the result), never predicted; a panic closes the case
    SliceAny(usize),
    /// other = Sodg::empty(cap) with the given vertices added; other.clone_from(&g); g = other
    CloneInto {
        cap: usize,
        ids: Vec<usize>,
    },
    /// one foreign activity on OTHER objects of the same thread (noise::disturb): another graph
    /// that forms and collects groups, a parse / print / save / load / merge / script that fails, …
    /// — never touches g, so the reference model does not move
    Noise(u16),
    /// the place in memory where g lives holds ANOTHER graph for a while: keep = g.clone();
    /// g.clone_from(&other) (a chain over the low ids with everyday labels and data); the other
    /// graph is queried there (kid, kids, v_print, slice, inspect, exports); g.clone_from(&keep).
    /// Whatever remembers a graph by its address now remembers the wrong one.
    Masquerade,
    /// g.merge(&h, left, h.root)
    Merge {
        h: TreeSpec,
        left: usize,
    },
    /// deploy "ADD($ν1); BIND(ν<parent>, $ν1, <label>);" — a vertex created through a script variable
    ScriptNew {
        parent: usize,
        l: Lab,
    },
}

impl Call {
    pub fn render(&self) -> String {
        match self {
            Call::Add(v) => format!("add({v})"),
            Call::Bind { a, b, l, parsed } => {
                if *parsed {
                    format!("bind({a},{b},from_str(\"{}\"))", l.text())
                } else {
                    format!("bind({a},{b},{l:?})")
                }
            }
            Call::Put(v, d) if d.len() > 64 => format!("put({v},{}…[{} bytes])", hexs(&d[..16]), d.len()),
            Call::Put(v, d) => format!("put({v},{})", hexs(d)),
            Call::Data(v) => format!("data({v})"),
            Call::NextId => "next_id()".into(),
            Call::NextIdAdd => "add(next_id())".into(),
            Call::Kid(v, l) => format!("kid({v},{l:?})"),
            Call::Kids(v) => format!("kids({v})"),
            Call::Clone => "g=g.clone()".into(),
            Call::SaveLoad => "g=load(save(g))".into(),
            Call::Snapshot => "snapshot=g.clone()".into(),
            Call::RefreshSnapshot => "snapshot.clone_from(&g); g=snapshot".into(),
            Call::Slice(v) => format!("slice({v})"),
            Call::SliceSome(v, p) => format!("slice_some({v},p#{p})"),
            Call::SliceAny(v) => format!("slice({v}) [through dangling edges too]"),
            Call::Checkpoint => "g.save(scratch)".into(),
            Call::Masquerade => "keep=g.clone(); g.clone_from(&other); [queries on other at g's address]; g.clone_from(&keep)".into(),
            Call::Noise(k) => format!("[foreign activity #{k} on other objects of this thread]"),
            Call::CloneInto { cap, ids } => format!("other=empty({cap})+{ids:?}; other.clone_from(&g); g=other"),
            Call::Merge { h, left } => format!(
                "merge(h[{}],left={left},right={})",
                h.nodes
                    .iter()
                    .map(|n| format!(
                        "{}{}{}",
                        n.id,
                        n.parent
                            .map(|p| format!("<-{}.{}", h.nodes[p].id, n.label.as_ref().unwrap().text()))
                            .unwrap_or_default(),
                        n.data.as_ref().map(|d| format!("={}", hexs(d))).unwrap_or_default()
                    ))
                    .chain(h.extras.iter().map(|e| format!("extra{}", e.id)))
                    .collect::<Vec<_>>()
                    .join(" "),
                h.root()
            ),
            Call::ScriptNew { parent, l } => {
                format!("deploy(\"ADD($ν1); BIND(ν{parent}, $ν1, {});\")", l.text())
            }
        }
    }
}

pub fn hexs(d: &[u8]) -> String {
    if d.is_empty() {
        "--".into()
    } else {
        d.iter().map(|b| format!("{b:02X}")).collect::<Vec<_>>().join("-")
    }
}

pub fn render_calls(cfg: Cfg, calls: &[Call]) -> String {
    format!(
        "Sodg<{}>::empty({}); {}",
        cfg.n,
        cfg.cap,
        calls.iter().map(Call::render).collect::<Vec<_>>().join("; ")
    )
}
