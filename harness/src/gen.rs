//! Stateful history generation by construction (DESIGN §5): a history is a vector of
//! op seeds; each seed is resolved against the current reference-model state into a
//! concrete call that satisfies every documented precondition and capacity limit.

use crate::calls::{Call, Cfg, TNode, TreeSpec};
use crate::lab::{pool, Lab};
use crate::model::{Model, MAX_GROUP, MAX_GROUPS};
use proptest::prelude::*;
use serde::{Deserialize, Serialize};

pub type OpSeed = (u8, u16, u16, u16, u16);

#[derive(Debug, Clone, PartialEq, Eq, Hash, Serialize, Deserialize)]
pub struct HistSeed {
    pub n_sel: u8,
    pub cap_sel: u8,
    pub profile_sel: u8,
    pub order_sel: u16,
    pub ops: Vec<OpSeed>,
}

pub fn hist_strategy(max_len: usize) -> impl Strategy<Value = HistSeed> {
    (
        any::<u8>(),
        any::<u8>(),
        any::<u8>(),
        any::<u16>(),
        proptest::collection::vec(
            (any::<u8>(), any::<u16>(), any::<u16>(), any::<u16>(), any::<u16>()),
            0..=max_len,
        ),
    )
        .prop_map(|(n_sel, cap_sel, profile_sel, order_sel, ops)| HistSeed {
            n_sel,
            cap_sel,
            profile_sel,
            order_sel,
            ops,
        })
}

#[inline]
pub fn idx(x: u16, len: usize) -> usize {
    debug_assert!(len > 0);
    ((x as usize) * len) >> 16
}

/// N in 1..=16 (weighted to 1, 2, 3, 16), plus 17 and 32.
pub fn pick_n(sel: u8) -> usize {
    const T: [usize; 32] = [
        1, 1, 1, 2, 2, 2, 2, 3, 3, 3, 4, 4, 5, 6, 7, 8, 9, 10, 11, 12, 13, 14, 15, 16, 16, 16, 16,
        16, 17, 2, 32, 4,
    ];
    T[(sel as usize * T.len()) >> 8]
}

/// capacity in {2..24, 64, 256, 700}
pub fn pick_cap(sel: u8) -> usize {
    const T: [usize; 32] = [
        2, 3, 4, 4, 5, 5, 6, 6, 7, 8, 8, 9, 10, 10, 11, 12, 12, 13, 14, 15, 16, 17, 18, 19, 20, 21,
        22, 23, 24, 64, 700, 256,
    ];
    T[(sel as usize * T.len()) >> 8]
}

#[derive(Debug, Clone, Copy, PartialEq, Eq, Hash, Serialize, Deserialize)]
pub enum Profile {
    GcOrders,
    Overwrite,
    Readd,
    Alloc,
    Limit,
    Forest,
    Queries,
    /// many groups alive at once, most of them holding unread data
    ManyGroups,
    /// allocator-heavy, starting from a long contiguous run of explicitly added ids
    Dense,
}

#[derive(Debug, Clone, Copy, PartialEq, Eq)]
enum Kind {
    Add,
    Bind,
    Put,
    Data,
    NextId,
    NextIdAdd,
    Kid,
    Kids,
    Clone,
    SaveLoad,
    Slice,
    Merge,
    Script,
    Snapshot,
    Refresh,
    CloneInto,
    SliceSome,
    SliceAny,
    Checkpoint,
    Noise,
    Masquerade,
}

impl Profile {
    fn weights(self) -> &'static [(Kind, u32)] {
        use Kind::*;
        match self {
            Profile::GcOrders => &[
                (Add, 22), (Bind, 28), (Put, 20), (Data, 20), (NextIdAdd, 3), (Kid, 1), (Kids, 1),
                (Clone, 1), (SaveLoad, 1), (Slice, 1), (Merge, 1), (NextId, 1), (Snapshot, 1), (Refresh, 1), (CloneInto, 1), (SliceSome, 1), (SliceAny, 1), (Checkpoint, 1), (Noise, 3), (Masquerade, 1),
            ],
            Profile::Overwrite => &[
                (Add, 16), (Bind, 34), (Put, 26), (Data, 14), (Kid, 4), (Kids, 4), (NextIdAdd, 2), (Checkpoint, 3), (Noise, 3), (Masquerade, 1),
            ],
            Profile::Readd => &[
                (Add, 32), (Bind, 24), (Put, 16), (Data, 19), (NextIdAdd, 3), (Kids, 2), (Kid, 4), (Noise, 3), (Masquerade, 1),
            ],
            Profile::Alloc => &[
                (Add, 16), (Bind, 18), (Put, 10), (Data, 14), (NextId, 12), (NextIdAdd, 14),
                (Clone, 3), (Merge, 6), (Script, 5), (SaveLoad, 1), (Snapshot, 2), (Refresh, 2), (CloneInto, 2), (Noise, 3), (Masquerade, 1),
            ],
            Profile::Limit => &[(Add, 18), (Bind, 56), (Put, 12), (Data, 10), (NextIdAdd, 4), (Noise, 2), (Masquerade, 1)],
            Profile::Forest => &[
                (Add, 18), (Bind, 24), (Put, 14), (Data, 12), (Merge, 16), (NextIdAdd, 4),
                (Slice, 4), (Clone, 2), (SaveLoad, 2), (Script, 4), (Noise, 3), (Masquerade, 1),
            ],
            Profile::ManyGroups => &[(Add, 30), (Bind, 34), (Put, 26), (Data, 4), (NextIdAdd, 4), (Kids, 2), (Noise, 2), (Masquerade, 1)],
            Profile::Dense => &[
                (Add, 14), (Bind, 16), (Put, 12), (Data, 16), (NextId, 14), (NextIdAdd, 14), (Clone, 2), (Merge, 6), (Script, 4), (SaveLoad, 1), (Snapshot, 2), (Refresh, 2), (Noise, 3), (Masquerade, 1),
            ],
            Profile::Queries => &[
                (Add, 18), (Bind, 30), (Put, 16), (Data, 12), (Slice, 5), (SliceSome, 6), (SliceAny, 3), (Kid, 4), (Kids, 4),
                (NextIdAdd, 4), (Merge, 4), (Noise, 3), (Masquerade, 1),
            ],
        }
    }

    fn pick_kind(self, k: u8) -> Kind {
        let w = self.weights();
        let total: u32 = w.iter().map(|x| x.1).sum();
        let mut t = (u32::from(k) * total) >> 8;
        for (kind, wt) in w {
            if t < *wt {
                return *kind;
            }
            t -= *wt;
        }
        w[0].0
    }
}

pub fn data_bytes(len_sel: u16, content: u16) -> Vec<u8> {
    // length classes 0, 1–7, 8, 9, 10–40
    const L: [usize; 24] = [0, 0, 1, 2, 3, 5, 7, 7, 8, 8, 8, 9, 9, 9, 10, 15, 16, 17, 24, 40, 64, 255, 256, 300];
    // one slot in 480 is a datum larger than 64 KiB
    let len = if idx(len_sel, L.len() * 20) == 7 { 66_000 } else { L[idx(len_sel, L.len())] };
    let mut v: Vec<u8> = (0..len)
        .map(|i| (content as usize).wrapping_mul(31).wrapping_add(i * 37 + 1) as u8)
        .collect();
    match content & 15 {
        // a family of near-duplicates across vertices: one fixed text per length class (17, 24,
        // 40 or 64 bytes) that differs from its siblings in ONE byte somewhere in the middle
        // (two time stamps a day apart, two records with one field changed)
        4 | 5 => {
            let flen = [17usize, 24, 40, 64][(content as usize >> 4) & 3];
            v = (0..flen).map(|i| b"2026-09-26T10:15:00Z record=0042 status=ok; "[i % 44]).collect();
            let pos = 8 + (content as usize >> 6) % (flen - 16);
            v[pos] = b'0' + ((content >> 10) % 10) as u8;
        }
        0 => v.iter_mut().for_each(|b| *b = 0),              // all zero bytes
        1 => {
            if let Some(b) = v.last_mut() {
                *b = 0; // trailing zero byte
            }
        }
        2 => {
            if let Some(b) = v.first_mut() {
                *b = 0x80 | *b; // "negative" first byte
            }
        }
        3 => v.iter_mut().for_each(|b| *b = 0xFF),
        _ => {}
    }
    v
}

/// A datum derived from the one a vertex holds: one trailing zero byte more or less, the
/// same bytes again, the same length with one byte changed, one byte longer/shorter.
pub fn data_variant(old: &[u8], sel: u16) -> Vec<u8> {
    let mut v = old.to_vec();
    match sel % 6 {
        0 => v.push(0),
        1 => {
            v.pop();
        }
        2 => {}
        3 => {
            if let Some(b) = v.last_mut() {
                *b ^= 0x01;
            } else {
                v.push(1);
            }
        }
        4 => v.push(0xAB),
        _ => {
            if !v.is_empty() {
                v.remove(0);
            }
        }
    }
    v
}

fn present_where(m: &Model, f: impl Fn(usize) -> bool) -> Vec<usize> {
    (0..m.cap).filter(|i| m.present(*i) && f(*i)).collect()
}

/// A label for bind(a, ·): by class — rebind an existing label of a, or a pool label
/// (a new one if possible, never exceeding N).
fn pick_label(m: &Model, a: usize, sel: u16, want_rebind: bool, labels: &[Lab]) -> Option<Lab> {
    let va = m.get(a);
    if want_rebind && !va.edges.is_empty() {
        return Some(va.edges[idx(sel, va.edges.len())].0.clone());
    }
    if va.edges.len() >= m.n {
        if va.edges.is_empty() {
            return None;
        }
        return Some(va.edges[idx(sel, va.edges.len())].0.clone());
    }
    Some(labels[idx(sel, labels.len())].clone())
}

fn small_tree(m: &Model, a: u16, b: u16, c: u16, d: u16) -> Option<Call> {
    let lefts: Vec<usize> = (0..m.cap).filter(|i| m.present(*i) && m.is_tree_from(*i)).collect();
    if lefts.is_empty() {
        return None;
    }
    let left = lefts[idx(d, lefts.len())];
    if a & 0x4000 != 0 && m.n >= 8 && b & 3 == 0 {
        // a wide right-hand vertex: a star with 8..=10 kids
        let kids = 8 + (b as usize >> 2) % 3;
        let mut nodes = vec![TNode { id: 0, parent: None, label: None, data: if c & 1 == 1 { Some(data_bytes(c, d)) } else { None }, read: false }];
        for i in 0..kids.min(m.n) {
            nodes.push(TNode { id: i + 1, parent: Some(0), label: Some(Lab::Alpha(20 + i as u64)), data: if (c >> (i + 1)) & 1 == 1 { Some(vec![i as u8; 2]) } else { None }, read: false });
        }
        return Some(Call::Merge { h: TreeSpec { cap: 12, nodes, extras: vec![], pairs_first: false, segment: 0 }, left });
    }
    let labels = [Lab::Alpha(0), Lab::Str("foo".into()), Lab::Greek('x'), Lab::Str("bar".into())];
    let want = 1 + (a as usize & 7) % 5;
    let hcap = 8;
    let base = ((a as usize) >> 3) % (hcap - want + 1);
    let rev = (a >> 15) & 1 == 1;
    let mk = |i: usize, parent: Option<usize>, label: Option<Lab>| {
        let has_data = (c >> i) & 1 == 1;
        TNode {
            id: if rev { base + want - 1 - i } else { base + i },
            parent,
            label,
            data: if has_data { Some(data_bytes(c.wrapping_mul(i as u16 + 3), c ^ b)) } else { None },
            read: has_data && (c >> (8 + i)) & 1 == 1 && (c >> 14) & 1 == 1,
        }
    };
    let mut nodes = vec![mk(0, None, None)];
    for i in 1..want {
        let psel = ((a as usize) >> (3 + 2 * i)) & 3;
        let mut placed = false;
        for dp in 0..nodes.len() {
            let p = (psel + dp) % nodes.len();
            let used: Vec<Lab> = nodes
                .iter()
                .filter(|n| n.parent == Some(p))
                .map(|n| n.label.clone().unwrap())
                .collect();
            if used.len() >= m.n {
                continue;
            }
            let start = ((b as usize) >> (2 * i)) & 3;
            if let Some(l) = (0..4).map(|k| labels[(start + k) % 4].clone()).find(|l| !used.contains(l)) {
                let idx_new = nodes.len();
                nodes.push(mk(idx_new, Some(p), Some(l)));
                placed = true;
                break;
            }
        }
        if !placed {
            break;
        }
    }
    // "the same sub-graph merged again": in one merge of four a right vertex that lands on a left
    // vertex holding a datum (unread or already read) carries exactly the same bytes
    if d & 3 == 1 {
        let mut mapped: Vec<Option<usize>> = vec![Some(left)];
        for i in 1..nodes.len() {
            let gv = mapped[nodes[i].parent.unwrap()].and_then(|p| m.kid(p, nodes[i].label.as_ref().unwrap())).filter(|t| m.present(*t));
            mapped.push(gv);
        }
        for (i, gv) in mapped.iter().enumerate() {
            if let Some(bytes) = gv.and_then(|v| m.get(v).data.clone()) {
                if (d >> (2 + i)) & 1 == 0 {
                    nodes[i].data = Some(bytes);
                    nodes[i].read = false;
                }
            }
        }
    }
    Some(Call::Merge { h: TreeSpec { cap: hcap, nodes, extras: vec![], pairs_first: false, segment: 0 }, left })
}

/// Resolve one op seed against the model. None = no valid candidate (skip).
pub fn resolve(seed: &OpSeed, m: &Model, profile: Profile) -> Option<Call> {
    let (k, a, b, c, d) = *seed;
    let labels = pool();
    let kind = profile.pick_kind(k);
    let call = match kind {
        Kind::Add => {
            let class = if (profile == Profile::ManyGroups || profile == Profile::Limit) && a & 1 == 0 { 0 } else { idx(a, 8) };
            let cands: Vec<usize> = match class {
                0 | 1 => (0..m.cap).filter(|i| !m.present(*i) && m.incs[*i] == 0).collect(),
                2 => (0..m.cap).filter(|i| !m.present(*i) && m.stale[*i]).collect(),
                3 => (0..m.cap).filter(|i| !m.present(*i) && m.incs[*i] > 0).collect(),
                4 => present_where(m, |i| m.get(i).group.is_none()),
                5 => present_where(m, |i| m.get(i).group.is_some()),
                6 => vec![m.cap - 1, 0],
                _ => (0..m.cap).collect(),
            };
            let cands = if cands.is_empty() { (0..m.cap).collect() } else { cands };
            Call::Add(cands[idx(b, cands.len())])
        }
        Kind::Bind => {
            let class = if profile == Profile::ManyGroups && a & 3 != 0 {
                0
            } else if profile == Profile::Limit && a & 3 == 1 {
                8 // grow the largest group
            } else if profile == Profile::Limit && a & 3 == 2 {
                9 // fill the fullest vertex
            } else {
                idx(a, 10)
            };
            let pres = present_where(m, |_| true);
            if pres.len() < 2 {
                return None;
            }
            let ungrouped = present_where(m, |i| m.get(i).group.is_none());
            let grouped = present_where(m, |i| m.get(i).group.is_some());
            let pick = |v: &Vec<usize>, s: u16| if v.is_empty() { None } else { Some(v[idx(s, v.len())]) };
            let (x, y, rebind): (Option<usize>, Option<usize>, bool) = match class {
                // both ungrouped -> new group
                0 | 1 => {
                    let x = pick(&ungrouped, b);
                    let rest: Vec<usize> = ungrouped.iter().copied().filter(|i| Some(*i) != x).collect();
                    (x, pick(&rest, c), false)
                }
                // ungrouped source joins a group
                2 => (pick(&ungrouped, b), pick(&grouped, c), false),
                // ungrouped target joins a group
                3 => (pick(&grouped, b), pick(&ungrouped, c), false),
                // same group
                4 => {
                    let x = pick(&grouped, b);
                    let same: Vec<usize> = x
                        .map(|x| grouped.iter().copied().filter(|i| *i != x && m.get(*i).group == m.get(x).group).collect())
                        .unwrap_or_default();
                    (x, pick(&same, c), false)
                }
                // different groups
                5 => {
                    let x = pick(&grouped, b);
                    let other: Vec<usize> = x
                        .map(|x| grouped.iter().copied().filter(|i| m.get(*i).group != m.get(x).group).collect())
                        .unwrap_or_default();
                    (x, pick(&other, c), false)
                }
                // rebind an existing label to another target
                6 | 7 => {
                    let with_edges = present_where(m, |i| !m.get(i).edges.is_empty());
                    let x = pick(&with_edges, b);
                    let rest: Vec<usize> = pres.iter().copied().filter(|i| Some(*i) != x).collect();
                    (x, pick(&rest, c), true)
                }
                // grow the largest group / fill the fullest vertex
                8 => {
                    let x = grouped.iter().copied().max_by_key(|i| (m.group_size(m.get(*i).group.unwrap()), *i));
                    (x, pick(&ungrouped, c), false)
                }
                _ => {
                    let x = pres.iter().copied().filter(|i| m.get(*i).edges.len() < m.n).max_by_key(|i| (m.get(*i).edges.len(), *i));
                    let rest: Vec<usize> = pres.iter().copied().filter(|i| Some(*i) != x).collect();
                    (x, pick(&rest, c), false)
                }
            };
            let (x, y) = match (x, y) {
                (Some(x), Some(y)) if x != y => (x, y),
                _ => {
                    let x = pres[idx(b, pres.len())];
                    let rest: Vec<usize> = pres.iter().copied().filter(|i| *i != x).collect();
                    (x, rest[idx(c, rest.len())])
                }
            };
            let l = pick_label(m, x, d, rebind, &labels)?;
            let parsed = d & 1 == 1 && l.parse_roundtrips();
            let call = Call::Bind { a: x, b: y, l: l.clone(), parsed };
            if m.can_bind(x, y, &l) {
                call
            } else {
                // the pair violates a group limit: try the reverse direction, then give up
                let l2 = pick_label(m, y, d, rebind, &labels)?;
                if m.can_bind(y, x, &l2) {
                    Call::Bind { a: y, b: x, l: l2, parsed }
                } else {
                    return None;
                }
            }
        }
        Kind::Put => {
            let class = if profile == Profile::ManyGroups && a & 1 == 0 { 2 } else { idx(a, 8) };
            let cands = match class {
                0 | 1 => present_where(m, |i| m.get(i).group.is_none()),
                // a grouped vertex without data, preferably in a group that has no unread datum yet
                2 => {
                    let v = present_where(m, |i| m.get(i).data.is_none() && m.get(i).group.is_some_and(|g| m.unread_in_group(g) == 0));
                    if v.is_empty() {
                        present_where(m, |i| m.get(i).group.is_some() && m.get(i).data.is_none())
                    } else {
                        v
                    }
                }
                3 | 4 => present_where(m, |i| m.get(i).unread),
                5 => present_where(m, |i| m.get(i).data.is_some() && !m.get(i).unread),
                _ => present_where(m, |_| true),
            };
            let cands = if cands.is_empty() { present_where(m, |_| true) } else { cands };
            if cands.is_empty() {
                return None;
            }
            let v = cands[idx(b, cands.len())];
            // an overwrite is often a close variant of what the vertex holds
            match &m.get(v).data {
                Some(old) if d & 3 == 0 && old.len() < 400 => Call::Put(v, data_variant(old, d >> 2)),
                _ => Call::Put(v, data_bytes(c, d)),
            }
        }
        Kind::Data => {
            let class = idx(a, 8);
            let cands = match class {
                0 => present_where(m, |i| m.get(i).data.is_none()),
                1 | 2 | 3 => present_where(m, |i| {
                    let v = m.get(i);
                    v.unread && v.group.is_some_and(|g| m.unread_in_group(g) == 1)
                }),
                4 => present_where(m, |i| {
                    let v = m.get(i);
                    v.unread && v.group.is_some_and(|g| m.unread_in_group(g) > 1)
                }),
                5 => present_where(m, |i| m.get(i).data.is_some() && !m.get(i).unread),
                6 => present_where(m, |i| m.get(i).unread && m.get(i).group.is_none()),
                _ => present_where(m, |_| true),
            };
            let cands = if cands.is_empty() { present_where(m, |_| true) } else { cands };
            if cands.is_empty() {
                return None;
            }
            Call::Data(cands[idx(b, cands.len())])
        }
        Kind::NextId => Call::NextId,
        Kind::NextIdAdd => Call::NextIdAdd,
        Kind::Kid => {
            let pres = present_where(m, |_| true);
            if pres.is_empty() {
                return None;
            }
            let v = pres[idx(a, pres.len())];
            let e = &m.get(v).edges;
            let l = if !e.is_empty() && b & 1 == 0 {
                e[idx(c, e.len())].0.clone()
            } else {
                labels[idx(c, labels.len())].clone()
            };
            Call::Kid(v, l)
        }
        Kind::Kids => {
            let pres = present_where(m, |_| true);
            if pres.is_empty() {
                return None;
            }
            Call::Kids(pres[idx(a, pres.len())])
        }
        Kind::Clone => Call::Clone,
        Kind::SaveLoad => Call::SaveLoad,
        Kind::CloneInto => {
            // a destination of another capacity that already holds a few vertices, some of them
            // above the source's capacity
            let cap = [m.cap, m.cap + 1, m.cap * 2 + 3, (m.cap / 2).max(1), 512][idx(a, 5)];
            let ids: Vec<usize> = [b, c, d, b ^ c.rotate_left(7)].iter().map(|x| idx(*x, cap)).collect();
            Call::CloneInto { cap, ids }
        }
        Kind::SliceSome => {
            let pres = present_where(m, |i| m.reachable(i).is_some_and(|r| r.len() <= 14));
            if pres.is_empty() {
                return None;
            }
            Call::SliceSome(pres[idx(a, pres.len())], b)
        }
        Kind::SliceAny => {
            // preferably from a vertex that has an edge to a collected vertex
            let dang = present_where(m, |i| m.get(i).edges.iter().any(|(_, t)| !m.present(*t)));
            let pres = if dang.is_empty() { present_where(m, |_| true) } else { dang };
            if pres.is_empty() {
                return None;
            }
            Call::SliceAny(pres[idx(a, pres.len())])
        }
        Kind::Checkpoint => Call::Checkpoint,
        Kind::Noise => Call::Noise(a),
        Kind::Masquerade => Call::Masquerade,
        Kind::Snapshot => Call::Snapshot,
        Kind::Refresh => Call::RefreshSnapshot,
        Kind::Slice => {
            let pres = present_where(m, |i| m.reachable(i).is_some_and(|r| r.len() <= 14));
            if pres.is_empty() {
                return None;
            }
            Call::Slice(pres[idx(a, pres.len())])
        }
        Kind::Merge => small_tree(m, a, b, c, d)?,
        Kind::Script => {
            let pres = present_where(m, |_| true);
            if pres.is_empty() {
                return None;
            }
            let p = pres[idx(a, pres.len())];
            // labels whose text parses back to themselves, without characters the script grammar reserves
            let ls: Vec<Lab> = labels
                .iter()
                .filter(|l| l.parse_roundtrips() && !l.text().contains([',', ')', '(', ';', '#']) && !l.text().chars().any(char::is_whitespace))
                .cloned()
                .collect();
            Call::ScriptNew { parent: p, l: ls[idx(b, ls.len())].clone() }
        }
    };
    Some(call)
}

/// Events a call exercises, judged on the model state *before* the call (DESIGN §5.2/5.3).
pub fn classify(m: &Model, c: &Call) -> Vec<&'static str> {
    let mut ev = vec![];
    match c {
        Call::Add(v) => {
            if m.present(*v) {
                ev.push(if m.get(*v).group.is_some() { "add.present_grouped" } else { "add.present_ungrouped" });
            } else if m.incs[*v] > 0 {
                ev.push(if m.stale[*v] { "add.recycled_stale" } else { "add.recycled" });
            } else {
                ev.push("add.fresh");
            }
            if *v + 1 == m.cap {
                ev.push("id.cap_minus_1");
            }
        }
        Call::Bind { a, b, l, parsed } => {
            let (ga, gb) = (m.get(*a).group, m.get(*b).group);
            ev.push(match (ga, gb) {
                (None, None) => "bind.new_group",
                (Some(_), None) | (None, Some(_)) => "bind.join",
                (Some(x), Some(y)) if x == y => "bind.same_group",
                _ => "bind.cross_group",
            });
            if m.get(*a).edges.iter().any(|(x, _)| x == l) {
                ev.push("bind.rebind_label");
            } else if m.get(*a).edges.len() + 1 == m.n {
                ev.push("bind.fills_N");
            }
            match (ga, gb) {
                (Some(g), None) | (None, Some(g)) if m.group_size(g) + 1 == MAX_GROUP => ev.push("bind.group_of_16"),
                (None, None) if m.groups_alive() + 1 == MAX_GROUPS => ev.push("bind.14_groups"),
                _ => {}
            }
            if (ga.is_none() && m.get(*a).unread) || (gb.is_none() && m.get(*b).unread) {
                ev.push("bind.carries_unread");
            }
            if *parsed {
                ev.push("bind.label_from_str");
            }
        }
        Call::Put(v, d) => {
            let x = m.get(*v);
            if x.group.is_none() {
                ev.push("put.ungrouped");
            }
            if x.unread {
                ev.push("put.overwrite_unread");
            } else if x.data.is_some() {
                ev.push("put.after_read");
            }
            ev.push(match d.len() {
                0 => "put.len0",
                1..=7 => "put.len1_7",
                8 => "put.len8",
                9 => "put.len9",
                _ => "put.len10plus",
            });
        }
        Call::Data(v) => {
            let x = m.get(*v);
            if x.data.is_none() {
                ev.push("data.none");
            } else if !x.unread {
                ev.push("data.repeat");
            } else if let Some(g) = x.group {
                if m.unread_in_group(g) == 1 {
                    ev.push("data.collects");
                } else {
                    ev.push("data.first_others_remain");
                }
            } else {
                ev.push("data.ungrouped_first");
            }
        }
        Call::NextId => ev.push("next_id"),
        Call::NextIdAdd => ev.push("next_id+add"),
        Call::Kid(..) => ev.push("kid"),
        Call::Kids(..) => ev.push("kids"),
        Call::Clone => ev.push("clone"),
        Call::Snapshot => ev.push("snapshot"),
        Call::CloneInto { .. } => ev.push("clone_from(into another store)"),
        Call::SliceSome(..) => ev.push("slice_some"),
        Call::SliceAny(..) => ev.push("slice(through dangling edges too)"),
        Call::Checkpoint => ev.push("checkpoint(save and go on)"),
        Call::Noise(_) => ev.push("foreign activity on the same thread"),
        Call::Masquerade => ev.push("another graph lives at g's address for a while"),
        Call::RefreshSnapshot => ev.push("clone_from(snapshot)"),
        Call::SaveLoad => ev.push("save+load"),
        Call::Slice(..) => ev.push("slice"),
        Call::Merge { h, .. } => {
            ev.push("merge");
            if h.nodes.len() >= 3 {
                ev.push("merge.h3plus");
            }
        }
        Call::ScriptNew { .. } => ev.push("script_var"),
    }
    ev
}

pub fn cfg_of(h: &HistSeed) -> Cfg {
    Cfg { n: pick_n(h.n_sel), cap: pick_cap(h.cap_sel) }
}

/// Profile ManyGroups starts from a "farm" of k groups that are alive at once, most of
/// them holding an unread datum (k and the details come from the seed's header).
/// A state that kept turning up in hard-to-find defects: an edge that dangles after its
/// target's group was collected while the source's group lives on, with the target id
/// added again (ungrouped) — optionally followed by the very same bind once more.
pub fn dangling_edge_template(cap: usize, sel: u16) -> Vec<Call> {
    if cap < 4 {
        return vec![];
    }
    let l = [Lab::Alpha(0), Lab::Str("foo".into()), Lab::Greek('ρ'), Lab::Alpha(17)][(sel % 4) as usize].clone();
    let mut v = vec![
        Call::Add(0), Call::Add(1), Call::Add(2), Call::Add(3),
        Call::Bind { a: 0, b: 1, l: Lab::Greek('x'), parsed: false },
        Call::Bind { a: 2, b: 3, l: Lab::Greek('x'), parsed: false },
        Call::Bind { a: 0, b: 2, l: l.clone(), parsed: false },
        Call::Put(1, vec![1; 9]),
        Call::Put(3, vec![3]),
        Call::Data(3),
        Call::Add(2),
    ];
    if sel & 4 == 4 {
        v.push(Call::Bind { a: 0, b: 2, l, parsed: false });
    }
    if sel & 8 == 8 {
        v.push(Call::Put(2, vec![2; 2]));
    }
    v
}

pub fn prelude(profile: Profile, hs: &HistSeed, cfg: Cfg) -> Vec<Call> {
    if matches!(profile, Profile::GcOrders | Profile::Readd | Profile::Overwrite) && hs.order_sel % 16 == 9 {
        return dangling_edge_template(cfg.cap, hs.order_sel >> 4);
    }
    if profile == Profile::Limit && hs.order_sel & 1 == 1 && cfg.cap >= 17 {
        // one group of 13..=16 members (each new vertex binds to an earlier one with its own first label)
        let size = 13 + (hs.order_sel as usize >> 1) % 4;
        let mut calls = vec![Call::Add(0)];
        for i in 1..size {
            calls.push(Call::Add(i));
            let to = (hs.order_sel as usize >> (i % 9)) % i;
            calls.push(Call::Bind { a: i, b: to, l: Lab::Alpha(0), parsed: false });
            if (hs.n_sel as usize >> (i % 7)) & 1 == 1 {
                calls.push(Call::Put(i, data_bytes((i * 4099) as u16, hs.order_sel)));
            }
        }
        return calls;
    }
    if profile == Profile::Dense {
        // a few allocator calls, then a contiguous run of explicit ids right at the allocator
        // position (so that next_id() has to walk over it), some of it grouped and collected
        // again later by the generated part
        let pre = hs.order_sel as usize % 4;
        let mut calls: Vec<Call> = (0..pre).map(|i| if (hs.n_sel >> i) & 1 == 1 { Call::NextIdAdd } else { Call::NextId }).collect();
        let room = cfg.cap.saturating_sub(pre + 2);
        let len = if cfg.cap >= 600 { 200 + (hs.order_sel as usize >> 2) % 130 } else { 4 + (hs.order_sel as usize >> 2) % 60 }.min(room);
        for i in 0..len {
            calls.push(Call::Add(pre + i));
        }
        // two of them form a group with a datum, so that a collection can free ids below the allocator
        if len >= 2 {
            calls.push(Call::Bind { a: pre, b: pre + 1, l: Lab::Alpha(0), parsed: false });
            calls.push(Call::Put(pre + 1, vec![7; 3]));
        }
        return calls;
    }
    if profile != Profile::ManyGroups {
        return vec![];
    }
    let k = (hs.order_sel as usize % 15).min(cfg.cap / 2);
    let mut calls = vec![];
    for i in 0..k {
        let (x, y) = (2 * i, 2 * i + 1);
        calls.push(Call::Add(x));
        calls.push(Call::Add(y));
        let bits = (hs.order_sel as usize >> (i % 12)) ^ (hs.n_sel as usize >> (i % 5));
        if bits & 1 == 0 {
            calls.push(Call::Put(x, data_bytes((bits * 77) as u16, i as u16)));
        }
        calls.push(if bits & 2 == 0 {
            Call::Bind { a: x, b: y, l: Lab::Alpha(0), parsed: false }
        } else {
            Call::Bind { a: y, b: x, l: Lab::Greek('ρ'), parsed: false }
        });
        if bits & 1 == 1 && bits & 12 != 0 {
            calls.push(Call::Put(y, data_bytes((bits * 31) as u16, i as u16)));
        }
    }
    calls
}
