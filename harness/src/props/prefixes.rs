//! C09: every strict prefix of an image written by save() must be rejected by load().

use crate::calls::{render_calls, Call, Cfg};
use crate::campaign::{CaseReport, Engine, Tier};
use crate::engine::Failure;
use crate::gen::{self, hist_strategy, HistSeed, Profile};
use crate::graph::load_graph;
use crate::interp::{panic_text, tmp_file, Runner};
use proptest::strategy::{BoxedStrategy, Strategy};
use serde::{Deserialize, Serialize};
use serde_json::{json, Value};
use std::hash::{Hash, Hasher};
use std::panic::{catch_unwind, AssertUnwindSafe};

pub struct PrefixEngine {
    pub all_prefixes: bool,
}

#[derive(Debug, Clone, PartialEq, Eq, Serialize, Deserialize)]
pub struct PrefixConcrete {
    pub cfg: Cfg,
    pub history: Vec<Call>,
    /// None = the whole plan of this tier; Some(k) = just this cut point
    pub cut: Option<usize>,
}

fn build(hs: &HistSeed) -> Option<(Cfg, Vec<Call>, Runner)> {
    let cfg = gen::cfg_of(hs);
    let profiles = [Profile::Overwrite, Profile::GcOrders, Profile::Limit];
    let profile = profiles[(hs.profile_sel as usize * profiles.len()) >> 8];
    let mut r = Runner::new(cfg);
    let mut history = vec![];
    for seed in &hs.ops {
        if let Some(call) = gen::resolve(seed, &r.m, profile) {
            if matches!(call, Call::SaveLoad | Call::Clone | Call::Slice(_)) || !r.valid(&call) {
                continue;
            }
            let s = r.step(&call);
            let was_put = matches!(call, Call::Put(..));
            history.push(call);
            if s.panicked.is_some() || s.desync || matches!(s.exp, crate::interp::Exp::Broken(_)) {
                return None;
            }
            // the object is saved many times while it grows and shrinks (an overwriting put with a
            // shorter datum makes the image smaller than an earlier checkpoint was)
            if was_put && history.len() % 2 == 0 {
                r.step(&Call::Checkpoint);
                history.push(Call::Checkpoint);
            }
        }
    }
    // one image in ~100 is larger than 1 MiB (one huge datum)
    if hs.order_sel % 97 == 0 {
        if let Some(v) = r.m.alive().first().copied() {
            // mostly 1.3 MB, sometimes above 4 MiB
            let huge = if (hs.order_sel / 97) % 3 == 0 { 4_400_000usize } else { 1_300_000usize };
            let call = Call::Put(v, (0..huge).map(|i| (i as u8) ^ (i >> 8) as u8 | 1).collect());
            if r.valid(&call) {
                r.step(&call);
                history.push(call);
            }
        }
    }
    Some((cfg, history, r))
}

impl PrefixEngine {
    fn cuts(&self, size: usize) -> Vec<usize> {
        // every cut point — except for images above 256 KiB, where a load costs ~1 ms and
        // the cut points are sampled in both tiers
        if (self.all_prefixes && size <= 262_144) || size <= 4096 {
            return (0..size).collect();
        }
        let mut v: Vec<usize> = (0..600).chain(size - 600..size).collect();
        for i in 0..1024 {
            v.push(i * size / 1024);
        }
        // around the power-of-two positions (block boundaries of typical readers)
        let mut p = 4096usize;
        while p < size {
            v.extend([p - 1, p, p + 1].into_iter().filter(|k| *k < size));
            p *= 2;
        }
        v.sort_unstable();
        v.dedup();
        v
    }

    pub(crate) fn check(&self, cfg: Cfg, r: &Runner, only: Option<usize>) -> (Option<Failure>, u64, usize) {
        // the image lives in a directory of its own, so that whatever else a save() leaves next
        // to it (backups, temporaries) goes away with the case
        let dir = tmp_file("c09d");
        let _ = std::fs::create_dir_all(&dir);
        let p = dir.join("image.sodg");
        struct Rm(std::path::PathBuf);
        impl Drop for Rm {
            fn drop(&mut self) {
                let _ = std::fs::remove_dir_all(&self.0);
            }
        }
        let _rm = Rm(dir.clone());
        let fail = |kind: &str, k: usize, d: String| Failure { prop: "C09".into(), kind: kind.into(), step: k, detail: d };
        // the target path already holds an older checkpoint: either a longer file of other
        // content, or a complete valid image of an earlier state of a graph (saved by save()
        // itself); save() must replace it, so that the file IS the image — and a cut image
        // must not be answered from anything else
        if r.done.len() % 2 == 0 {
            let probe = dir.join("probe");
            let approx = r.g.save(&probe).unwrap_or(0);
            let _ = std::fs::remove_file(&probe);
            let _ = std::fs::write(&p, vec![0xA5u8; approx + approx / 4 + 4096]);
        } else {
            let mut older = crate::graph::new_graph(cfg.n, cfg.cap);
            older.add(0);
            if cfg.cap > 1 {
                older.add(cfg.cap - 1);
                older.put(cfg.cap - 1, &crate::graph::hex_of(&[0xBB; 11]));
            }
            let _ = older.save(&p);
            if r.done.len() % 4 == 3 {
                // a checkpoint before that one, too
                let _ = older.save(&p);
            }
        }
        let size = match catch_unwind(AssertUnwindSafe(|| r.g.save(&p))) {
            Ok(Ok(sz)) => sz,
            Ok(Err(e)) => return (Some(fail("save.error", 0, format!("save() of a reachable graph failed: {e:#}"))), 0, 0),
            Err(e) => return (Some(fail("save.panic", 0, format!("save() panicked: {}", panic_text(e)))), 0, 0),
        };
        let bytes = std::fs::read(&p).unwrap_or_default();
        if bytes.len() != size {
            let _ = std::fs::remove_file(&p);
            return (Some(fail("save.size", 0, format!("save() returned {size} but the file has {} bytes (the file is not exactly the image; the path may have held an older file before)", bytes.len()))), 0, size);
        }
        // control: the complete image loads
        match catch_unwind(AssertUnwindSafe(|| load_graph(cfg.n, &p).map(|g| g.keys()))) {
            Ok(Ok(k)) if k == r.g.keys() => {}
            other => {
                let _ = std::fs::remove_file(&p);
                return (Some(fail("load.complete_image", size, format!("the complete image does not load back: {:?}", other.map(|r| r.map_err(|e| format!("{e:#}"))).map_err(panic_text)))), 0, size);
            }
        }
        let cuts = match only {
            Some(k) => vec![k.min(size.saturating_sub(1))],
            None => self.cuts(size),
        };
        let mut evals = 0u64;
        let mut failure = None;
        for k in cuts {
            evals += 1;
            if std::fs::write(&p, &bytes[..k]).is_err() {
                continue;
            }
            match catch_unwind(AssertUnwindSafe(|| load_graph(cfg.n, &p).map(|g| g.keys()))) {
                Ok(Err(_)) => {}
                Ok(Ok(keys)) => {
                    failure = Some(fail("load.accepts_truncated", k, format!("load() of the first {k} of {size} bytes returned a graph with keys {keys:?}")));
                    break;
                }
                Err(e) => {
                    failure = Some(fail("load.panics_on_truncated", k, format!("load() of the first {k} of {size} bytes panicked: {}", panic_text(e))));
                    break;
                }
            }
        }
        let _ = std::fs::remove_file(&p);
        (failure, evals, size)
    }
}

impl Engine for PrefixEngine {
    type Case = HistSeed;
    fn name(&self) -> &'static str {
        "prefixes"
    }
    fn strategy(&self, _: Tier) -> BoxedStrategy<HistSeed> {
        hist_strategy(50).boxed()
    }
    fn run(&self, case: &HistSeed) -> CaseReport {
        let Some((cfg, history, r)) = build(case) else {
            return CaseReport { events: vec!["history_closed"], evaluations: 1, ..Default::default() };
        };
        let (failure, evals, size) = self.check(cfg, &r, None);
        let heap = r.m.alive().iter().any(|v| r.m.get(*v).data.as_ref().is_some_and(|d| d.len() > 8));
        let multi = r.m.alive().iter().any(|v| r.m.get(*v).edges.len() >= 2);
        let mut hs = std::collections::hash_map::DefaultHasher::new();
        (cfg, &history).hash(&mut hs);
        let mut events = vec![];
        if heap {
            events.push("image.heap_datum");
        }
        if multi {
            events.push("image.vertex_with_2plus_edges");
        }
        if r.m.groups_alive() >= 2 {
            events.push("image.2plus_groups");
        }
        if size > 4096 {
            events.push("image.larger_than_4096_bytes");
        }
        let cut = failure.as_ref().map(|f| f.step);
        CaseReport {
            payload: failure.as_ref().map(|_| {
                let mut v = serde_json::to_value(PrefixConcrete { cfg, history: history.clone(), cut }).unwrap();
                v["rendered"] = json!(render_calls(cfg, &history));
                v
            }),
            failure,
            nontrivial: heap && multi,
            hash: hs.finish(),
            weight: evals,
            events,
            counters: vec![("prefix_loads", evals), ("image_bytes", size as u64)],
            evaluations: evals.max(1),
            ..Default::default()
        }
    }
    fn render(&self, case: &HistSeed) -> Value {
        match build(case) {
            Some((cfg, history, r)) => {
                let p = tmp_file("c09r");
                let size = r.g.save(&p).unwrap_or(0);
                let _ = std::fs::remove_file(&p);
                let mut s = render_calls(cfg, &history);
                if s.len() > 1000 {
                    s = s.chars().take(1000).collect::<String>() + " …";
                }
                json!({"graph_built_by": s.chars().take(1200).collect::<String>(), "image_bytes": size, "cut_points": self.cuts(size).len()})
            }
            None => json!("closed"),
        }
    }
    fn minimise(&self, payload: Value, kind: &str) -> Value {
        let Ok(c) = serde_json::from_value::<PrefixConcrete>(payload.clone()) else {
            return payload;
        };
        let mut budget = 300u64;
        let mut pred = |h: &[Call]| {
            self.replay(&serde_json::to_value(PrefixConcrete { cfg: c.cfg, history: h.to_vec(), cut: None }).unwrap())
                .is_some_and(|f| f.kind == kind)
        };
        let h = crate::campaign::ddmin(c.history.clone(), &mut pred, &mut budget);
        let cut = self.replay(&serde_json::to_value(PrefixConcrete { cfg: c.cfg, history: h.clone(), cut: None }).unwrap()).map(|f| f.step);
        let mut v = serde_json::to_value(PrefixConcrete { cfg: c.cfg, history: h.clone(), cut }).unwrap();
        v["rendered"] = json!(render_calls(c.cfg, &h));
        v
    }
    fn replay(&self, payload: &Value) -> Option<Failure> {
        let c: PrefixConcrete = serde_json::from_value(payload.clone()).ok()?;
        let mut r = Runner::new(c.cfg);
        for call in &c.history {
            let s = r.step(call);
            if s.panicked.is_some() {
                return None;
            }
        }
        self.check(c.cfg, &r, c.cut).0
    }
}
