//! C19: determinism and independence of N / capacity. A history generated inside the
//! limits of the smaller of two configurations is replayed (a) twice in one process,
//! (b) in another process, (c) under the other configuration; the complete observation
//! traces must be identical.

use crate::calls::{render_calls, Call, Cfg};
use crate::campaign::{ddmin, CaseReport, Engine, Tier};
use crate::engine::{run_concrete, run_seeded, Failure};
use crate::gen::{self, hist_strategy, HistSeed, Profile};
use crate::interp::{tmp_file, Ret};
use crate::obs::{Obs, ObsLevel};
use crate::props::gc::NullOracle;
use proptest::prelude::*;
use proptest::strategy::BoxedStrategy;
use serde::{Deserialize, Serialize};
use serde_json::{json, Value};
use std::hash::{Hash, Hasher};

#[derive(Debug, Clone, PartialEq, Eq, Serialize, Deserialize)]
pub struct MultiCase {
    pub hist: HistSeed,
    pub n2_sel: u8,
    pub cap2_sel: u8,
    pub xproc: u8,
}

#[derive(Debug, Clone, PartialEq, Eq, Serialize, Deserialize)]
pub struct MultiConcrete {
    pub a: Cfg,
    pub b: Cfg,
    pub calls: Vec<Call>,
    pub xproc: bool,
}

pub struct MultiEngine;

const LVL: ObsLevel = ObsLevel { inspect: true, debug: true, exports: false };

/// The trace of a run; save+load sizes are capacity dependent by nature and masked.
pub fn trace_of(cfg: Cfg, calls: &[Call]) -> Option<Vec<(Ret, Obs)>> {
    let out = run_concrete(cfg, calls, &mut NullOracle, Some(LVL));
    if out.closed.is_some() || out.calls.len() != calls.len() {
        return None;
    }
    Some(
        out.trace
            .into_iter()
            .map(|(r, o)| {
                let r = match r {
                    Ret::SaveLoad(Ok(_)) => Ret::SaveLoad(Ok(0)),
                    x => x,
                };
                (r, o)
            })
            .collect(),
    )
}

pub fn digest(t: &[(Ret, Obs)]) -> u64 {
    let mut h = std::collections::hash_map::DefaultHasher::new();
    format!("{t:?}").hash(&mut h);
    h.finish()
}

fn first_diff(x: &[(Ret, Obs)], y: &[(Ret, Obs)], calls: &[Call]) -> Option<(usize, String)> {
    for i in 0..x.len().max(y.len()) {
        match (x.get(i), y.get(i)) {
            (Some(a), Some(b)) if a == b => {}
            (Some(a), Some(b)) => {
                let d = if a.0 != b.0 {
                    format!("result {:?} vs {:?}", a.0, b.0)
                } else {
                    crate::obs::diff(&a.1, &b.1).unwrap_or_default()
                };
                return Some((i, format!("after call {i} ({}): {d}", calls.get(i).map(Call::render).unwrap_or_default())));
            }
            _ => return Some((i, format!("traces have different lengths {} vs {}", x.len(), y.len()))),
        }
    }
    None
}

impl MultiEngine {
    pub(crate) fn check(c: &MultiConcrete) -> (Option<Failure>, bool) {
        let fail = |kind: &str, step: usize, d: String| Some(Failure { prop: "C19".into(), kind: kind.into(), step, detail: d });
        let Some(t1) = trace_of(c.a, &c.calls) else {
            return (None, false);
        };
        let Some(t2) = trace_of(c.a, &c.calls) else {
            return (fail("rerun.closed", 0, "the second run of the same history in the same configuration did not complete".into()), true);
        };
        if let Some((i, d)) = first_diff(&t1, &t2, &c.calls) {
            return (fail("rerun.differs", i, format!("two runs under {:?} differ: {d}", c.a)), true);
        }
        if c.a != c.b {
            let Some(t3) = trace_of(c.b, &c.calls) else {
                return (fail("config.closed", 0, format!("the history completes under {:?} but not under {:?}", c.a, c.b)), true);
            };
            if let Some((i, d)) = first_diff(&t1, &t3, &c.calls) {
                return (fail("config.differs", i, format!("{:?} vs {:?}: {d}", c.a, c.b)), true);
            }
        }
        if c.xproc {
            // (b) the same history in another process
            let p = tmp_file("c19");
            let _ = std::fs::write(&p, serde_json::to_vec(&json!({"cfg": c.a, "calls": c.calls})).unwrap());
            let out = std::process::Command::new(std::env::current_exe().unwrap())
                .arg("trace-digest")
                .arg(&p)
                .output();
            let _ = std::fs::remove_file(&p);
            if let Ok(o) = out {
                let txt = String::from_utf8_lossy(&o.stdout).trim().to_string();
                if o.status.success() {
                    if txt != digest(&t1).to_string() {
                        return (fail("process.differs", 0, format!("another process produced a different observation trace for the same history under {:?} (digest {txt} vs {})", c.a, digest(&t1))), true);
                    }
                }
            }
        }
        (None, true)
    }
}

impl Engine for MultiEngine {
    type Case = MultiCase;
    fn name(&self) -> &'static str {
        "multi-config"
    }
    fn strategy(&self, _: Tier) -> BoxedStrategy<MultiCase> {
        (hist_strategy(60), any::<u8>(), any::<u8>(), any::<u8>())
            .prop_map(|(hist, n2_sel, cap2_sel, xproc)| MultiCase { hist, n2_sel, cap2_sel, xproc })
            .boxed()
    }
    fn run(&self, case: &MultiCase) -> CaseReport {
        let a = gen::cfg_of(&case.hist);
        let b = Cfg { n: gen::pick_n(case.n2_sel), cap: gen::pick_cap(case.cap2_sel) };
        // generate inside the limits of the smaller configuration
        let small = Cfg { n: a.n.min(b.n), cap: a.cap.min(b.cap) };
        let mut hs = case.hist.clone();
        // cfg_of(hs) must give `small`: run the generator on an explicit configuration instead
        let profiles = [Profile::Forest, Profile::Queries, Profile::Alloc, Profile::GcOrders, Profile::Dense];
        let out = run_seeded_cfg(&mut hs, small, &profiles);
        if out.closed.is_some() || out.failure.is_some() {
            return CaseReport { events: vec!["history_closed"], evaluations: 1, ..Default::default() };
        }
        // at the end: slice_some from every eligible vertex under three fixed predicates
        let mut calls = out.calls.clone();
        {
            let mut r = crate::interp::Runner::new(small);
            for c in &calls {
                r.step(c);
            }
            if !r.desynced {
                let starts: Vec<usize> = r.m.alive().into_iter().filter(|v| r.m.reachable(*v).is_some_and(|x| x.len() >= 3 && x.len() <= 14)).take(8).collect();
                for v in starts {
                    for seed in [case.n2_sel as u16, 0x1234, case.hist.order_sel] {
                        calls.push(Call::SliceSome(v, seed));
                    }
                }
            }
        }
        let conc = MultiConcrete { a, b, calls, xproc: case.xproc < 6 };
        let (failure, ran) = Self::check(&conc);
        let has = |f: &dyn Fn(&Call) -> bool| conc.calls.iter().any(|c| f(c));
        let interesting = has(&|c| matches!(c, Call::Merge { .. } | Call::Slice(_) | Call::SliceSome(..) | Call::NextId | Call::NextIdAdd));
        let nontrivial = ran && interesting && out.max_labels >= 2 && a != b;
        let mut h = std::collections::hash_map::DefaultHasher::new();
        (a, b, &conc.calls).hash(&mut h);
        let mut events = vec![];
        if a.n != b.n {
            events.push("different_N");
        }
        if a.cap != b.cap {
            events.push("different_capacity");
        }
        if conc.xproc {
            events.push("compared_with_another_process");
        }
        if has(&|c| matches!(c, Call::Merge { .. })) {
            events.push("merge");
        }
        if has(&|c| matches!(c, Call::Slice(_))) {
            events.push("slice");
        }
        if has(&|c| matches!(c, Call::SliceSome(..))) {
            events.push("slice_some");
        }
        if has(&|c| matches!(c, Call::NextId | Call::NextIdAdd)) {
            events.push("next_id");
        }
        if !ran {
            events.push("not_comparable");
        }
        CaseReport {
            payload: failure.as_ref().map(|_| serde_json::to_value(&conc).unwrap()),
            failure,
            nontrivial,
            hash: h.finish(),
            events,
            counters: vec![("calls", conc.calls.len() as u64)],
            evaluations: 1,
            ..Default::default()
        }
    }
    fn render(&self, case: &MultiCase) -> Value {
        let a = gen::cfg_of(&case.hist);
        let b = Cfg { n: gen::pick_n(case.n2_sel), cap: gen::pick_cap(case.cap2_sel) };
        let small = Cfg { n: a.n.min(b.n), cap: a.cap.min(b.cap) };
        let mut hs = case.hist.clone();
        let out = run_seeded_cfg(&mut hs, small, &[Profile::Forest, Profile::Queries, Profile::Alloc, Profile::GcOrders, Profile::Dense]);
        let mut s = render_calls(small, &out.calls[..out.gen_calls.min(out.calls.len())]);
        if s.len() > 1200 {
            s = s.chars().take(1200).collect::<String>() + " …";
        }
        json!({"config_a": a, "config_b": b, "history_generated_within": small, "history": s})
    }
    fn minimise(&self, payload: Value, kind: &str) -> Value {
        let Ok(c) = serde_json::from_value::<MultiConcrete>(payload.clone()) else {
            return payload;
        };
        let mut budget = 1500u64;
        let mut pred = |k: &[Call]| Self::check(&MultiConcrete { calls: k.to_vec(), ..c.clone() }).0.is_some_and(|f| f.kind == kind);
        if !pred(&c.calls) {
            return payload;
        }
        let calls = ddmin(c.calls.clone(), &mut pred, &mut budget);
        let mut v = serde_json::to_value(MultiConcrete { calls: calls.clone(), ..c.clone() }).unwrap();
        v["rendered"] = json!(format!("{:?} vs {:?}: {}", c.a, c.b, render_calls(c.a, &calls)));
        v
    }
    fn replay(&self, payload: &Value) -> Option<Failure> {
        let c: MultiConcrete = serde_json::from_value(payload.clone()).ok()?;
        Self::check(&c).0
    }
}

/// run_seeded on an explicit configuration (the seed's own header is overridden).
fn run_seeded_cfg(hs: &mut HistSeed, cfg: Cfg, profiles: &[Profile]) -> crate::engine::CaseOutcome {
    // find header selectors that map to the wanted configuration
    for s in 0..=255u8 {
        if gen::pick_n(s) == cfg.n {
            hs.n_sel = s;
            break;
        }
    }
    for s in 0..=255u8 {
        if gen::pick_cap(s) == cfg.cap {
            hs.cap_sel = s;
            break;
        }
    }
    run_seeded(hs, profiles, &mut NullOracle, None)
}

/// `svcheck trace-digest <file>`: print the digest of the trace of {cfg, calls}.
pub fn trace_digest_cmd(path: &str) -> i32 {
    let Ok(txt) = std::fs::read_to_string(path) else {
        return 2;
    };
    let Ok(v) = serde_json::from_str::<Value>(&txt) else {
        return 2;
    };
    let (Ok(cfg), Ok(calls)) = (serde_json::from_value::<Cfg>(v["cfg"].clone()), serde_json::from_value::<Vec<Call>>(v["calls"].clone())) else {
        return 2;
    };
    match trace_of(cfg, &calls) {
        Some(t) => {
            println!("{}", digest(&t));
            0
        }
        None => 3,
    }
}
