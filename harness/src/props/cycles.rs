//! C06: sustained operation. Hundreds of create–fill–read cycles over a rotating window
//! of ids, with 0..13 long-lived groups kept alive and up to 14-k cycles overlapping;
//! the alive set must equal the reference model after every call.

use crate::calls::{render_calls, Call, Cfg};
use crate::campaign::{ddmin, CaseReport, Engine, Tier};
use crate::engine::{make_oracle, run_concrete, Driver, Failure};
use crate::gen::{self, data_bytes, idx};
use crate::lab::Lab;
use crate::model::{Model, MAX_GROUPS};
use proptest::prelude::*;
use proptest::strategy::BoxedStrategy;
use serde::{Deserialize, Serialize};
use serde_json::{json, Value};
use std::collections::VecDeque;

pub type CycleSeed = (u16, u16, u16, u16);

#[derive(Debug, Clone, PartialEq, Eq, Serialize, Deserialize)]
pub struct CyclesCase {
    pub n_sel: u8,
    pub cap_sel: u8,
    pub k_long: u8,
    pub overlap: u8,
    pub cycles: Vec<CycleSeed>,
    pub sched: Vec<u8>,
    pub order_sel: u16,
}

pub struct CyclesEngine {
    pub max_cycles: usize,
}

struct Active {
    ids: Vec<usize>,
    work: VecDeque<Work>,
    started_group: bool,
}

#[derive(Debug, Clone)]
enum Work {
    Add(usize),
    /// connect vertex i of the cycle to an earlier one
    Link(usize, usize, bool),
    Put(usize, Vec<u8>),
    /// read only if that cannot end the cycle early (model says others remain unread)
    SafeRead(usize),
    /// make sure the cycle's group holds an unread datum
    Ensure,
    Read(usize),
}

fn plan_cycle(seed: &CycleSeed, ids: Vec<usize>) -> Active {
    let (shape, order, data, _) = *seed;
    let sz = ids.len();
    let mut items: Vec<(u16, Work)> = vec![];
    for i in 1..sz {
        let j = (shape as usize >> (2 * i)) % i;
        items.push(((order.wrapping_mul(i as u16 * 7 + 3)) & 0x3ff, Work::Link(i, j, (order >> i) & 1 == 1)));
    }
    for i in 0..sz {
        if (data >> i) & 1 == 1 || i == (data as usize % sz) {
            let bytes = data_bytes(data.wrapping_mul(i as u16 + 1), shape ^ order);
            items.push((order.wrapping_mul(i as u16 * 13 + 5) & 0x3ff, Work::Put(i, bytes.clone())));
            if (data >> (8 + i % 8)) & 1 == 1 {
                // overwrite, or re-put after a harmless read
                let key = order.wrapping_mul(i as u16 * 17 + 9) & 0x3ff;
                if (shape >> i) & 1 == 1 {
                    items.push((key, Work::SafeRead(i)));
                }
                // ... with other bytes, or (every other time) with exactly the same bytes again
                let again = if (shape >> (i + 3)) & 1 == 1 { bytes.clone() } else { data_bytes(data ^ 0x5555, order) };
                items.push((key.saturating_add(1), Work::Put(i, again)));
            }
        }
    }
    // links must be executed in index order (each connects to an earlier, already linked
    // vertex) so that a cycle is one group; puts and reads interleave freely
    items.sort_by_key(|x| x.0);
    let mut links: VecDeque<Work> = items.iter().filter(|x| matches!(x.1, Work::Link(..))).map(|x| x.1.clone()).collect::<Vec<_>>().into();
    let mut l2: Vec<Work> = links.drain(..).collect();
    l2.sort_by_key(|w| if let Work::Link(i, _, _) = w { *i } else { 0 });
    let mut links: VecDeque<Work> = l2.into();
    let mut work: VecDeque<Work> = (0..sz).map(Work::Add).collect();
    for (_, w) in items {
        if matches!(w, Work::Link(..)) {
            work.push_back(links.pop_front().unwrap());
        } else {
            work.push_back(w);
        }
    }
    work.push_back(Work::Ensure);
    // read everything, in a generated order, some twice
    let mut reads: Vec<usize> = (0..sz).collect();
    reads.rotate_left(order as usize % sz);
    if shape & 1 == 1 {
        reads.reverse();
    }
    for i in reads {
        work.push_back(Work::Read(i));
        if (data >> i) & 2 == 2 {
            work.push_back(Work::Read(i));
        }
    }
    Active { ids, work, started_group: false }
}

/// Translate the next work item of a cycle into a call, given the model. None = nothing
/// to do for this item (skip); Err(()) = must wait (no free group slot).
fn next_call(a: &mut Active, m: &Model) -> Result<Option<Call>, ()> {
    let Some(w) = a.work.front().cloned() else {
        return Ok(None);
    };
    let call = match w {
        Work::Add(i) => Some(Call::Add(a.ids[i])),
        Work::Link(i, j, dir) => {
            let (x, y) = (a.ids[i], a.ids[j]);
            if !m.present(x) || !m.present(y) {
                None
            } else {
                if m.get(x).group.is_none() && m.get(y).group.is_none() && m.groups_alive() >= MAX_GROUPS {
                    return Err(());
                }
                // direction: the source needs a free label slot
                let (s, t) = if dir { (x, y) } else { (y, x) };
                let (s, t) = if m.get(s).edges.len() < m.n { (s, t) } else { (t, s) };
                if m.get(s).edges.len() >= m.n {
                    None
                } else {
                    a.started_group = true;
                    let k = m.get(s).edges.len() as u64;
                    Some(Call::Bind { a: s, b: t, l: Lab::Alpha(k), parsed: false })
                }
            }
        }
        Work::Put(i, d) => m.present(a.ids[i]).then(|| {
            // one datum in four arrives through merge() of a single-vertex tree instead of put()
            // (when the vertex is the root of a tree, as merge() requires)
            let v = a.ids[i];
            let h = crate::calls::TreeSpec { cap: 2, nodes: vec![crate::calls::TNode { id: 1, parent: None, label: None, data: Some(d.clone()), read: d.len() % 8 == 5 }], extras: vec![], pairs_first: false, segment: 0 };
            if d.len() % 4 == 1 && crate::interp::plan_merge(m, &h, v).is_some() {
                Call::Merge { h, left: v }
            } else {
                Call::Put(v, d)
            }
        }),
        Work::SafeRead(i) => {
            let v = a.ids[i];
            if m.present(v) {
                let x = m.get(v);
                let harmless = !x.unread || x.group.is_none() || x.group.is_some_and(|g| m.unread_in_group(g) > 1);
                harmless.then_some(Call::Data(v))
            } else {
                None
            }
        }
        Work::Ensure => {
            // every group of the cycle must hold an unread datum, and a lone vertex
            // (cycle of one linked pair that could not link) is left to the final drain
            let mut need = None;
            for v in &a.ids {
                if m.present(*v) {
                    if let Some(g) = m.get(*v).group {
                        if m.unread_in_group(g) == 0 {
                            need = Some(*v);
                            break;
                        }
                    }
                }
            }
            match need {
                Some(v) => return Ok(Some(Call::Put(v, vec![0xEE; 9]))), // stays at the front until satisfied
                None => None,
            }
        }
        Work::Read(i) => m.present(a.ids[i]).then(|| Call::Data(a.ids[i])),
    };
    a.work.pop_front();
    Ok(call)
}

fn case_cfg(case: &CyclesCase) -> (Cfg, usize, usize) {
    let n = gen::pick_n(case.n_sel);
    const CAPS: [usize; 10] = [8, 10, 16, 24, 32, 48, 64, 96, 128, 256];
    let cap = CAPS[(case.cap_sel as usize * CAPS.len()) >> 8];
    let k = (case.k_long as usize % 14).min((cap - 6) / 2);
    let overlap = (1 + case.overlap as usize % 13).min(MAX_GROUPS - k).min((cap - 2 * k) / 6).max(1);
    (Cfg { n, cap }, k, overlap)
}

fn drive(case: &CyclesCase, d: &mut Driver, max_cycles: usize) -> bool {
    let (cfg, k, overlap) = case_cfg(case);
    // long-lived groups
    for i in 0..k {
        let (x, y) = (cfg.cap - 1 - 2 * i, cfg.cap - 2 - 2 * i);
        for c in [Call::Add(x), Call::Add(y), Call::Bind { a: x, b: y, l: Lab::Greek('ρ'), parsed: false }, Call::Put(y, vec![i as u8; 10])] {
            if !d.step(&c) {
                return false;
            }
        }
    }
    let window = cfg.cap - 2 * k;
    let mut ptr = 0usize;
    let mut active: Vec<Active> = vec![];
    let mut next_cycle = 0usize;
    let mut sched_pos = 0usize;
    let total = case.cycles.len().min(max_cycles);
    let mut guard = 0usize;
    while next_cycle < total || !active.is_empty() {
        guard += 1;
        if guard > 200_000 {
            d.out.events.insert("harness.scheduler_guard");
            break;
        }
        let s = if case.sched.is_empty() { 0 } else { case.sched[sched_pos % case.sched.len()] };
        sched_pos += 1;
        // now and then the whole graph is replaced by a copy of itself: clone, save+load, clone_from
        if guard % 97 == 0 && case.k_long & 1 == 1 {
            let c = match (s as usize + guard / 97) % 4 {
                0 => Call::Clone,
                1 => Call::SaveLoad,
                2 => Call::Snapshot,
                _ => Call::RefreshSnapshot,
            };
            d.out.events.insert("cycle.graph_replaced_by_copy");
            if !d.step(&c) {
                return false;
            }
        }
        // start a new cycle?
        if next_cycle < total && active.len() < overlap && (active.is_empty() || s % 3 == 0) {
            let seed = &case.cycles[next_cycle];
            let sz = 2 + (seed.0 as usize % 5);
            // sz absent ids from the rotating window
            let mut ids = vec![];
            let mut p = ptr;
            for _ in 0..window {
                if ids.len() == sz {
                    break;
                }
                if !d.r.m.present(p) && !active.iter().any(|a| a.ids.contains(&p)) {
                    ids.push(p);
                }
                p = (p + 1) % window;
            }
            ptr = (ptr + 1 + seed.3 as usize % 5) % window;
            if ids.len() >= 2 {
                next_cycle += 1;
                active.push(plan_cycle(seed, ids));
                continue;
            } else if active.is_empty() {
                // nothing fits: give up on further cycles
                d.out.events.insert("harness.window_exhausted");
                break;
            }
        }
        if active.is_empty() {
            continue;
        }
        let ai = idx(u16::from(s) << 8, active.len());
        let mut progressed = false;
        for off in 0..active.len() {
            let i = (ai + off) % active.len();
            match next_call(&mut active[i], &d.r.m) {
                Err(()) => continue,
                Ok(Some(c)) => {
                    if !d.step(&c) {
                        return false;
                    }
                    progressed = true;
                }
                Ok(None) => progressed = true,
            }
            if active[i].work.is_empty() {
                // end of the cycle: all its vertices must be gone (the model decides; the
                // per-call oracle has compared the implementation with it)
                let a = active.remove(i);
                let left: Vec<usize> = a.ids.iter().copied().filter(|v| d.r.m.present(*v)).collect();
                if left.is_empty() {
                    d.out.events.insert("cycle.completed_all_collected");
                } else if left.iter().all(|v| d.r.m.get(*v).group.is_none()) {
                    // vertices that could not be linked (N labels used up) stay ungrouped by design
                    d.out.events.insert("cycle.left_ungrouped_vertex");
                } else {
                    d.out.events.insert("harness.cycle_left_grouped_vertices");
                }
            }
            break;
        }
        if !progressed {
            d.out.events.insert("harness.deadlock");
            break;
        }
    }
    true
}

/// Cycles driven by ONE Script object deployed again and again ("ADD($a); ADD($b);
/// BIND($a, $b, x); PUT($b, ..)"), the group read and collected in between, with k
/// long-lived groups on the top ids. Id-agnostic oracle: every deployment succeeds, adds
/// exactly the two vertices of the pair to the alive set, the read returns the datum and
/// takes exactly those two away again — for more cycles than the store has slots.
fn script_cycles(cfg: Cfg, k: usize, cycles: usize, long_datum: bool) -> (Option<Failure>, u64) {
    use std::panic::{catch_unwind, AssertUnwindSafe};
    let fail = |kind: &str, t: usize, d: String| Some(Failure { prop: "C06".into(), kind: kind.into(), step: t, detail: format!("cycle {t} of one re-deployed Script object on Sodg<{}>::empty({}) with {k} long-lived groups: {d}", cfg.n, cfg.cap) });
    let mut g = crate::graph::new_graph(cfg.n, cfg.cap);
    for i in 0..k {
        let (x, y) = (cfg.cap - 1 - 2 * i, cfg.cap - 2 - 2 * i);
        g.add(x);
        g.add(y);
        g.bind(x, y, Lab::Greek('ρ').direct());
        g.put(y, &crate::graph::hex_of(&[i as u8; 10]));
    }
    let datum: Vec<u8> = if long_datum { vec![0xAB; 11] } else { vec![0xAB] };
    let text = format!("ADD($a); ADD($b); BIND($a, $b, x); PUT($b, {});", crate::calls::hexs(&datum));
    let mut script = sodg::Script::from_str(&text);
    let base = g.keys();
    for t in 0..cycles {
        crate::campaign::touch();
        match catch_unwind(AssertUnwindSafe(|| g.deploy_obj(&mut script))) {
            Err(e) => return (fail("script_cycle.panic", t, format!("deploy_to() panicked: {}", crate::interp::panic_text(e))), t as u64),
            Ok(Err(e)) => return (fail("script_cycle.error", t, format!("deploy_to() failed: {e:#}")), t as u64),
            Ok(Ok(4)) => {}
            Ok(Ok(n)) => return (fail("script_cycle.count", t, format!("deploy_to() returned {n} for 4 commands")), t as u64),
        }
        let now = g.keys();
        let fresh: Vec<usize> = now.iter().copied().filter(|v| !base.contains(v)).collect();
        if fresh.len() != 2 || now.len() != base.len() + 2 {
            return (fail("script_cycle.alive_set", t, format!("after the deployment keys() = {now:?}, before it {base:?}")), t as u64);
        }
        let b = if g.kid(fresh[0], Lab::Greek('x').direct()) == Some(fresh[1]) { fresh[1] } else { fresh[0] };
        match catch_unwind(AssertUnwindSafe(|| g.data(b).map(|h| h.to_vec()))) {
            Ok(Some(d)) if d == datum => {}
            other => return (fail("script_cycle.data", t, format!("data({b}) = {:?}", other.map_err(crate::interp::panic_text))), t as u64),
        }
        let after = g.keys();
        if after != base {
            return (fail("script_cycle.not_collected", t, format!("after reading the pair's only datum keys() = {after:?}, expected {base:?}")), t as u64);
        }
    }
    (None, cycles as u64)
}

impl CyclesEngine {
    fn run_calls(cfg: Cfg, calls: &[Call]) -> Option<Failure> {
        let mut o = make_oracle("C06");
        run_concrete(cfg, calls, &mut *o, None).failure.map(|mut f| {
            f.prop = "C06".into();
            f
        })
    }
}

impl Engine for CyclesEngine {
    type Case = CyclesCase;
    fn name(&self) -> &'static str {
        "cycles"
    }
    fn strategy(&self, tier: Tier) -> BoxedStrategy<CyclesCase> {
        let lo = 40usize;
        let hi = if tier == Tier::Quick { 300usize.min(self.max_cycles) } else { self.max_cycles };
        (
            any::<u8>(),
            any::<u8>(),
            any::<u8>(),
            any::<u8>(),
            proptest::collection::vec((any::<u16>(), any::<u16>(), any::<u16>(), any::<u16>()), lo..=hi),
            proptest::collection::vec(any::<u8>(), 16..=64),
            any::<u16>(),
        )
            .prop_map(|(n_sel, cap_sel, k_long, overlap, cycles, sched, order_sel)| CyclesCase { n_sel, cap_sel, k_long, overlap, cycles, sched, order_sel })
            .boxed()
    }
    fn run(&self, case: &CyclesCase) -> CaseReport {
        let (cfg, k, overlap) = case_cfg(case);
        let mut o = make_oracle("C06");
        let out;
        let mut slot_mismatch = 0u64;
        {
            let mut d = Driver::new(cfg, &mut *o);
            let ok = drive(case, &mut d, self.max_cycles);
            d.out.gen_calls = d.out.calls.len();
            if ok {
                // diagnostic only: occupied group slots (hook) vs groups alive (model)
                let snap = d.r.g.snapshot();
                let occupied = snap.branches.iter().skip(2).filter(|b| !b.is_empty()).count();
                if occupied != d.r.m.groups_alive() {
                    slot_mismatch = 1;
                }
                d.epilogue(case.order_sel);
            }
            out = d.out;
        }
        let mut failure = out.failure.clone().map(|mut f| {
            f.prop = "C06".into();
            f
        });
        let mut script_payload = None;
        let mut script_done = 0u64;
        if failure.is_none() && case.overlap % 4 == 1 {
            // the same amount of cycles through one re-deployed Script object
            let cycles = case.cycles.len().min(self.max_cycles).max(cfg.cap + 8);
            let (f, done) = script_cycles(cfg, k, cycles, case.order_sel & 1 == 1);
            script_done = done;
            if f.is_some() {
                script_payload = Some(json!({"script_cycles": {"cfg": cfg, "long_lived": k, "cycles": cycles, "long_datum": case.order_sel & 1 == 1}}));
            }
            failure = f;
        }
        let mut events: Vec<&'static str> = out.events.iter().copied().filter(|e| e.starts_with("cycle.") || e.starts_with("harness.") || e.starts_with("save+load") || e.starts_with("clone") || e.starts_with("put.over") || e.starts_with("bind.carries") || e.starts_with("put.after")).collect();
        if let Some(c) = out.closed {
            events.push(c);
        }
        if out.groups_died >= 15 {
            events.push("groups_died>=15");
        }
        if out.groups_died >= 100 {
            events.push("groups_died>=100");
        }
        if k == 0 {
            events.push("long_lived=0");
        } else if k >= 13 {
            events.push("long_lived=13");
        } else {
            events.push("long_lived=1..12");
        }
        if overlap >= 2 {
            events.push("overlapping_cycles");
        }
        if script_done > 0 {
            events.push("cycle.one_script_object_redeployed_more_often_than_there_are_slots");
        }
        CaseReport {
            payload: script_payload.or_else(|| failure.as_ref().map(|_| json!({"cfg": cfg, "calls": out.calls, "rendered": render_calls(cfg, &out.calls)}))),
            failure,
            nontrivial: out.closed.is_none() && out.groups_died >= 15,
            hash: out.hash64(),
            events,
            counters: vec![
                ("calls", out.calls.len() as u64),
                ("groups_died", out.groups_died),
                ("vertices_collected", out.collections),
                ("diagnostic_slot_count_mismatch(hook)", slot_mismatch),
                ("script_object_cycles", script_done),
            ],
            evaluations: 1,
            ..Default::default()
        }
    }
    fn render(&self, case: &CyclesCase) -> Value {
        let (cfg, k, overlap) = case_cfg(case);
        let mut o = make_oracle("C06");
        let mut d = Driver::new(cfg, &mut *o);
        drive(case, &mut d, self.max_cycles);
        let mut s = render_calls(cfg, &d.out.calls);
        if s.len() > 1500 {
            s = s.chars().take(1500).collect::<String>() + " …";
        }
        json!({"config": cfg, "long_lived_groups": k, "max_overlapping_cycles": overlap, "cycles": case.cycles.len().min(self.max_cycles),
               "calls": d.out.calls.len(), "groups_died": d.out.groups_died, "history_start": s})
    }
    fn minimise(&self, payload: Value, kind: &str) -> Value {
        if payload.get("script_cycles").is_some() {
            return payload;
        }
        let Ok(cfg) = serde_json::from_value::<Cfg>(payload["cfg"].clone()) else {
            return payload;
        };
        let Ok(calls) = serde_json::from_value::<Vec<Call>>(payload["calls"].clone()) else {
            return payload;
        };
        let mut budget = 3000u64;
        let mut pred = |c: &[Call]| Self::run_calls(cfg, c).is_some_and(|f| f.kind == kind);
        if !pred(&calls) {
            return payload;
        }
        let min = ddmin(calls, &mut pred, &mut budget);
        json!({"cfg": cfg, "calls": min, "rendered": render_calls(cfg, &min)})
    }
    fn replay(&self, payload: &Value) -> Option<Failure> {
        if let Some(sc) = payload.get("script_cycles") {
            let cfg: Cfg = serde_json::from_value(sc["cfg"].clone()).ok()?;
            return script_cycles(cfg, sc["long_lived"].as_u64()? as usize, sc["cycles"].as_u64()? as usize, sc["long_datum"].as_bool()?).0;
        }
        let cfg: Cfg = serde_json::from_value(payload["cfg"].clone()).ok()?;
        let calls: Vec<Call> = serde_json::from_value(payload["calls"].clone()).ok()?;
        Self::run_calls(cfg, &calls)
    }
}
