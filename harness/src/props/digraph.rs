//! C13 (slice), C20 (inspect / Debug / v_print) and C18 (XML / DOT exports) over
//! generated digraphs (cycles, shared targets, parallel labels, data) built through the
//! API, and over graphs left behind by generated histories with collections.

use crate::calls::{hexs, render_calls, Call, Cfg};
use crate::campaign::{ddmin, CaseReport, Engine, Tier};
use crate::engine::Failure;
use crate::gen::{self, data_bytes, hist_strategy, idx, HistSeed, Profile};
use crate::graph::G;
use crate::interp::{panic_text, Runner};
use crate::lab::{pool, Lab};
use crate::model::Model;
use crate::obs::{diff, try_observe, ObsLevel};
use proptest::prelude::*;
use proptest::strategy::BoxedStrategy;
use serde::{Deserialize, Serialize};
use serde_json::{json, Value};
use std::collections::{BTreeMap, BTreeSet};
use std::hash::{Hash, Hasher};
use std::panic::{catch_unwind, AssertUnwindSafe};

#[derive(Debug, Clone, PartialEq, Eq, Serialize, Deserialize)]
pub struct DiCase {
    pub n_sel: u8,
    pub cap_sel: u8,
    /// Some = graph from a generated history (with collections, dangling edges);
    /// None = direct digraph builder
    pub hist: Option<HistSeed>,
    pub verts: Vec<(u8, u8)>,
    pub edges: Vec<(u8, u8, u8)>,
    pub pred: u16,
    pub rate: u8,
    pub variant: u8,
}

#[derive(Debug, Clone, PartialEq, Eq, Serialize, Deserialize)]
pub struct DiConcrete {
    pub cfg: Cfg,
    pub calls: Vec<Call>,
    pub pred: u16,
    pub rate: u8,
    pub variant: u8,
}

fn di_strategy(with_hist: bool) -> BoxedStrategy<DiCase> {
    let hist = if with_hist { proptest::option::weighted(0.4, hist_strategy(50)).boxed() } else { Just(None).boxed() };
    (
        any::<u8>(),
        any::<u8>(),
        hist,
        proptest::collection::vec((any::<u8>(), any::<u8>()), 1..=14),
        proptest::collection::vec((any::<u8>(), any::<u8>(), any::<u8>()), 0..=40),
        any::<u16>(),
        any::<u8>(),
        any::<u8>(),
    )
        .prop_map(|(n_sel, cap_sel, hist, verts, edges, pred, rate, variant)| DiCase { n_sel, cap_sel, hist, verts, edges, pred, rate, variant })
        .boxed()
}

fn simple_labels() -> Vec<Lab> {
    // characters that need no XML escaping; and no line breaks: the printed forms judged here
    // (DOT, inspect, Debug) are line-oriented, a label with a line break in it would need
    // escaping there and the parsers of this harness read those texts line by line
    pool().into_iter().filter(|l| l.parse_roundtrips() && !l.text().contains(['<', '>', '&', '"', '\'', '\n', '\r'])).collect()
}

/// Concrete calls that build the graph of a case.
fn build_calls(case: &DiCase, allow_big: bool) -> (Cfg, Vec<Call>) {
    if let Some(hs) = &case.hist {
        let cfg = gen::cfg_of(hs);
        let profiles = [Profile::GcOrders, Profile::Overwrite, Profile::Queries];
        let profile = profiles[(hs.profile_sel as usize * profiles.len()) >> 8];
        let mut r = Runner::new(cfg);
        let mut calls = vec![];
        for seed in &hs.ops {
            if let Some(call) = gen::resolve(seed, &r.m, profile) {
                if matches!(call, Call::Slice(_) | Call::Merge { .. } | Call::ScriptNew { .. }) || !r.valid(&call) {
                    continue;
                }
                let s = r.step(&call);
                calls.push(call);
                if s.panicked.is_some() || s.desync {
                    break;
                }
            }
        }
        return (cfg, calls);
    }
    // one graph in 16 is BIG (65..200 vertices in chains of 16 linked across groups, plus
    // generated extra edges between grouped vertices), one in 16 is DENSE (18..20 vertices,
    // every vertex with N = 16 labels, the smallest label forming a ring)
    match case.variant % 16 {
        3 if allow_big => return build_big(case),
        7 if allow_big => return build_dense(case),
        11 if allow_big => return build_wide(case),
        _ => {}
    }
    if case.variant % 16 == 13 {
        return build_fan(case);
    }
    let n = gen::pick_n(case.n_sel);
    let cap = gen::pick_cap(case.cap_sel).max(case.verts.len() + 2);
    let cfg = Cfg { n, cap };
    let mut r = Runner::new(cfg);
    let mut calls = vec![];
    let mut ids = vec![];
    let mut free: Vec<usize> = (0..cap).collect();
    for (a, _) in &case.verts {
        let id = free.remove(idx(u16::from(*a) << 8, free.len()));
        ids.push(id);
        let c = Call::Add(id);
        r.step(&c);
        calls.push(c);
    }
    let labels = simple_labels();
    let mut puts_later = vec![];
    for (i, (_, d)) in case.verts.iter().enumerate() {
        if d % 3 != 0 {
            let bytes = data_bytes(u16::from(*d) << 8, u16::from(*d) * 131);
            if d % 4 == 1 {
                // put (and for some read) before any bind
                let c = Call::Put(ids[i], bytes);
                r.step(&c);
                calls.push(c);
                if d % 8 == 1 {
                    let c = Call::Data(ids[i]);
                    r.step(&c);
                    calls.push(c);
                }
            } else {
                puts_later.push(Call::Put(ids[i], bytes));
            }
        }
    }
    for (f, t, l) in &case.edges {
        let a = ids[idx(u16::from(*f) << 8, ids.len())];
        let b = ids[idx(u16::from(*t) << 8, ids.len())];
        // parallel labels to one target are frequent: small label range per source
        let lab = labels[(*l as usize) % labels.len().min(if l % 5 == 0 { labels.len() } else { n.max(2) + 1 })].clone();
        let c = Call::Bind { a, b, l: lab, parsed: false };
        if r.valid(&c) {
            r.step(&c);
            calls.push(c);
        }
    }
    for c in puts_later {
        if r.valid(&c) {
            r.step(&c);
            calls.push(c);
        }
    }
    (cfg, calls)
}

fn push_valid(r: &mut Runner, calls: &mut Vec<Call>, c: Call) {
    if r.valid(&c) {
        r.step(&c);
        calls.push(c);
    }
}

fn build_big(case: &DiCase) -> (Cfg, Vec<Call>) {
    let n = [2usize, 3, 4, 16][case.n_sel as usize % 4];
    let total = 65 + (case.pred as usize % 136).min(200 - 65);
    let cfg = Cfg { n, cap: if case.cap_sel & 1 == 0 { 256 } else { 700 } };
    let mut r = Runner::new(cfg);
    let mut calls = vec![];
    let stride = if cfg.cap == 700 && case.cap_sel & 2 == 2 { 3 } else { 1 };
    let id = |i: usize| i * stride;
    for i in 0..total {
        push_valid(&mut r, &mut calls, Call::Add(id(i)));
    }
    // chains of 16 inside one group each
    for i in 1..total {
        if i % 16 != 0 {
            push_valid(&mut r, &mut calls, Call::Bind { a: id(i - 1), b: id(i), l: Lab::Alpha(0), parsed: false });
        }
    }
    // link the chains (both ends grouped: cross-group edges)
    for i in (16..total).step_by(16) {
        push_valid(&mut r, &mut calls, Call::Bind { a: id(i - 1), b: id(i), l: Lab::Alpha(0), parsed: false });
    }
    // extra edges: back and cross edges between arbitrary vertices (grouped already)
    for (k, (f, t, l)) in case.edges.iter().enumerate() {
        let a = id((*f as usize * 7 + k * 13) % total);
        let b = id((*t as usize * 11 + k * 5) % total);
        let lab = Lab::Alpha(1 + (*l as u64 % (n as u64 - 1).max(1)));
        push_valid(&mut r, &mut calls, Call::Bind { a, b, l: lab, parsed: false });
    }
    // a back edge into the middle of every chain from its end (deep re-visits)
    for i in (15..total).step_by(16) {
        let target = id(i - (case.variant as usize % 15));
        push_valid(&mut r, &mut calls, Call::Bind { a: id(total - 1), b: target, l: Lab::Alpha(1), parsed: false });
        push_valid(&mut r, &mut calls, Call::Bind { a: id(i), b: id(i / 2), l: Lab::Str("back".into()), parsed: false });
    }
    for (i, (_, d)) in case.verts.iter().enumerate() {
        if d % 3 == 0 {
            push_valid(&mut r, &mut calls, Call::Put(id((i * 9) % total), data_bytes(u16::from(*d) << 8, i as u16)));
        }
    }
    (cfg, calls)
}

/// 6..=10 vertices (one group), N = 16, every vertex with 9..=16 labels drawn from a list
/// that contains families of labels equal under lossy keys (code points modulo 128 or 256).
fn build_wide(case: &DiCase) -> (Cfg, Vec<Call>) {
    let total = 6 + (case.pred as usize % 5);
    let cfg = Cfg { n: 16, cap: 12 + (case.cap_sel as usize % 2) * 244 };
    let mut r = Runner::new(cfg);
    let mut calls = vec![];
    let mut labels: Vec<Lab> = ["esta", "está", "ano", "año", "ах", "0E", "abcdefgh", "Foo", "FOO", "k1", "k2", "数据节点甲一", "数据节点甲二", "abcdefgX", "абвгдежз", "абвгдежи", "𝜑𝜓𝜔𝛼𝛽𝛾𝛿𝜀", "𝜑𝜓𝜔𝛼𝛽𝛾𝛿𝜁"].iter().map(|s| Lab::Str((*s).to_string())).collect();
    labels.extend((0..8).map(Lab::Alpha));
    labels.extend([Lab::Greek('a'), Lab::Greek('á'), Lab::Greek('ρ')]);
    for i in 0..total {
        push_valid(&mut r, &mut calls, Call::Add(i));
    }
    for i in 1..total {
        push_valid(&mut r, &mut calls, Call::Bind { a: i - 1, b: i, l: Lab::Alpha(0), parsed: false });
    }
    for i in 0..total {
        let want = 9 + (case.edges.get(i).map_or(0, |e| e.0 as usize) % 8);
        let start = case.edges.get(i).map_or(0, |e| e.1 as usize) % labels.len();
        for k in 0..want {
            let l = labels[(start + k * 5) % labels.len()].clone();
            let t = (i + 1 + case.edges.get((i + k) % case.edges.len().max(1)).map_or(0, |e| e.2 as usize)) % total;
            let t = if t == i { (i + 1) % total } else { t };
            push_valid(&mut r, &mut calls, Call::Bind { a: i, b: t, l, parsed: false });
        }
    }
    for (i, (_, d)) in case.verts.iter().enumerate().take(total) {
        if d % 2 == 0 {
            push_valid(&mut r, &mut calls, Call::Put(i, data_bytes(u16::from(*d) << 8, i as u16)));
        }
    }
    (cfg, calls)
}

/// A hub with N or N-1 labels (parallel labels to 2..=5 kids), for every N incl. 17 and 32,
/// plus generated extra edges; at most 8 vertices.
fn build_fan(case: &DiCase) -> (Cfg, Vec<Call>) {
    let n = [1usize, 2, 3, 8, 15, 16, 17, 32][case.n_sel as usize % 8];
    let kids = 2 + (case.pred as usize % 4);
    let cfg = Cfg { n, cap: gen::pick_cap(case.cap_sel).max(kids + 3) };
    let mut r = Runner::new(cfg);
    let mut calls = vec![];
    let pool = simple_labels();
    for i in 0..=kids + 1 {
        push_valid(&mut r, &mut calls, Call::Add(i));
    }
    let want = if case.rate & 1 == 0 { n } else { n.saturating_sub(1).max(1) };
    for k in 0..want {
        let l = if k < pool.len() { pool[k].clone() } else { Lab::Alpha(1000 + k as u64) };
        push_valid(&mut r, &mut calls, Call::Bind { a: 0, b: 1 + (k + case.pred as usize) % kids, l, parsed: false });
    }
    for (f, t, l) in case.edges.iter().take(10) {
        let a = 1 + (*f as usize % (kids + 1));
        let b = (*t as usize) % (kids + 2);
        if a != b {
            push_valid(&mut r, &mut calls, Call::Bind { a, b, l: Lab::Alpha(u64::from(*l) % (n as u64).max(1)), parsed: false });
        }
    }
    (cfg, calls)
}

fn build_dense(case: &DiCase) -> (Cfg, Vec<Call>) {
    let n = 16;
    let total = 18 + (case.pred as usize % 3);
    let cfg = Cfg { n, cap: 24 + (case.cap_sel as usize % 3) * 100 };
    let mut r = Runner::new(cfg);
    let mut calls = vec![];
    for i in 0..total {
        push_valid(&mut r, &mut calls, Call::Add(i));
    }
    // two groups: 0..15 and the rest
    for i in 1..total {
        if i != 16 {
            push_valid(&mut r, &mut calls, Call::Bind { a: i - 1, b: i, l: Lab::Alpha(0), parsed: false });
        }
    }
    if total > 17 {
        push_valid(&mut r, &mut calls, Call::Bind { a: 15, b: 16, l: Lab::Alpha(0), parsed: false });
    }
    push_valid(&mut r, &mut calls, Call::Bind { a: total - 1, b: 0, l: Lab::Alpha(0), parsed: false });
    // every vertex gets all 16 labels; the other 15 point at generated targets (often vertex 0)
    for i in 0..total {
        for k in 1..16u64 {
            let sel = case.edges.get((i * 15 + k as usize) % case.edges.len().max(1)).map_or(0, |e| e.0 as usize);
            let target = if sel % 3 == 0 { (i + sel) % total } else { 0 };
            let target = if target == i { (i + 1) % total } else { target };
            push_valid(&mut r, &mut calls, Call::Bind { a: i, b: target, l: Lab::Alpha(k), parsed: false });
        }
    }
    for (i, (_, d)) in case.verts.iter().enumerate().take(total) {
        if d % 2 == 0 {
            push_valid(&mut r, &mut calls, Call::Put(i % total, data_bytes(u16::from(*d) << 8, i as u16)));
        }
    }
    (cfg, calls)
}

pub(crate) fn replay_calls(cfg: Cfg, calls: &[Call]) -> Option<Runner> {
    let mut r = Runner::new(cfg);
    for c in calls {
        let s = r.step(c);
        if s.panicked.is_some() || s.desync {
            return None;
        }
    }
    Some(r)
}

/// present vertices reachable from v along edges of present vertices, accepted by p
fn reach(m: &Model, v: usize, p: &dyn Fn(usize, usize, &Lab) -> bool) -> BTreeSet<usize> {
    let mut seen = BTreeSet::new();
    if !m.present(v) {
        return seen;
    }
    seen.insert(v);
    let mut todo = vec![v];
    while let Some(x) = todo.pop() {
        for (l, t) in &m.get(x).edges {
            if m.present(*t) && p(x, *t, l) && seen.insert(*t) {
                todo.push(*t);
            }
        }
    }
    seen
}

fn accept(seed: u16, rate: u8, from: usize, to: usize, l: &Lab) -> bool {
    match rate % 3 {
        0 => true,
        2 => false,
        _ => {
            let mut h = std::collections::hash_map::DefaultHasher::new();
            (seed, from, to, l).hash(&mut h);
            h.finish() & 1 == 0
        }
    }
}

fn has_cycle_or_share(m: &Model, r: &BTreeSet<usize>) -> bool {
    let mut indeg: BTreeMap<usize, usize> = BTreeMap::new();
    let mut edges = 0;
    for x in r {
        let mut targets = BTreeSet::new();
        for (_, t) in &m.get(*x).edges {
            if r.contains(t) && targets.insert(*t) {
                *indeg.entry(*t).or_insert(0) += 1;
                edges += 1;
            }
        }
    }
    edges >= r.len() || indeg.values().any(|d| *d >= 2)
}

// ============================================================================ C13

pub(crate) fn check_slices(r: &Runner, pred: u16, rate: u8, st: &mut Stats) -> Option<Failure> {
    let fail = |kind: &str, v: usize, d: String| Some(Failure { prop: "C13".into(), kind: kind.into(), step: v, detail: d });
    let m = &r.m;
    let before = try_observe(&*r.g, ObsLevel::FULL).ok()?;
    for v in m.alive() {
        let Some(full) = m.reachable(v) else {
            st.skipped_starts += 1;
            continue; // an absent vertex is reachable: outside the quantifier
        };
        if full.len() > 14 {
            st.skipped_starts += 1;
            continue;
        }
        for mode in 0..2 {
            let p = |a: usize, b: usize, l: &Lab| mode == 0 || accept(pred, rate, a, b, l);
            let want = reach(m, v, &p);
            let res = catch_unwind(AssertUnwindSafe(|| {
                if mode == 0 {
                    r.g.slice(v)
                } else {
                    r.g.slice_some(v, &|a, b, l| accept(pred, rate, a, b, &Lab::from_label(&l)))
                }
            }));
            st.evals += 1;
            let what = if mode == 0 { format!("slice({v})") } else { format!("slice_some({v}, p#{pred}/{})", rate % 3) };
            let s = match res {
                Err(e) => return fail("slice.panic", v, format!("{what} panicked: {}", panic_text(e))),
                Ok(Err(e)) => return fail("slice.err", v, format!("{what} returned Err: {e:#}")),
                Ok(Ok(s)) => s,
            };
            let keys: BTreeSet<usize> = s.keys().into_iter().collect();
            if keys != want {
                let kind = if keys.is_subset(&want) { "slice.vertex_missing" } else { "slice.vertex_extra" };
                return fail(kind, v, format!("{what}: present vertices {keys:?}, reachable {want:?}"));
            }
            let mut rejected_somewhere = false;
            for x in &want {
                let got: BTreeSet<(Lab, usize)> = s.kids(*x).iter().map(|(l, t)| (Lab::from_label(l), *t)).collect();
                let n_got = s.kids(*x).len();
                let src: BTreeSet<(Lab, usize)> = m.get(*x).edges.iter().cloned().collect();
                let must: BTreeSet<(Lab, usize)> = src.iter().filter(|(l, t)| want.contains(t) && p(*x, *t, l)).cloned().collect();
                if must.len() != src.iter().filter(|(_, t)| want.contains(t)).count() {
                    rejected_somewhere = true;
                }
                if n_got != got.len() {
                    return fail("slice.duplicate_edge", v, format!("{what}: kids({x}) of the slice lists an edge twice"));
                }
                if !got.is_subset(&src) {
                    return fail("slice.edge_not_in_source", v, format!("{what}: kids({x}) of the slice {got:?} has an edge the source lacks ({src:?})"));
                }
                if !must.is_subset(&got) {
                    return fail("slice.edge_missing", v, format!("{what}: kids({x}) of the slice {got:?} lacks accepted edges between kept vertices ({must:?})"));
                }
                if got.iter().any(|(_, t)| !want.contains(t)) {
                    return fail("slice.edge_to_dropped_vertex", v, format!("{what}: kids({x}) of the slice {got:?} points outside the kept vertices {want:?}"));
                }
            }
            if has_cycle_or_share(m, &full) && (mode == 0 || rejected_somewhere) {
                let mut h = std::collections::hash_map::DefaultHasher::new();
                (v, mode, pred, rate % 3, format!("{:?}", before.verts)).hash(&mut h);
                st.sub.push(h.finish());
            }
        }
    }
    match try_observe(&*r.g, ObsLevel::FULL) {
        Ok(after) => {
            if let Some(d) = diff(&before, &after) {
                return fail("slice.source_changed", 0, format!("slicing changed the source graph: {d}"));
            }
        }
        Err(e) => return fail("slice.source_changed", 0, format!("observing the source after slicing panicked: {e}")),
    }
    None
}

// ============================================================================ C20

#[derive(Default)]
pub struct Stats {
    pub evals: u64,
    pub skipped_starts: u64,
    pub sub: Vec<u64>,
}

/// Parse inspect() output into (source, label text, target, seen-mark) records.
fn parse_inspect(txt: &str, v: usize) -> Result<Vec<(usize, String, usize, bool)>, String> {
    let mut lines = txt.split('\n');
    let first = lines.next().unwrap_or("");
    if first != format!("ν{v}") {
        return Err(format!("first line is {first:?}, expected ν{v}"));
    }
    let mut out = vec![];
    // stack[d] = vertex whose edges are printed at depth d (depth 1 = two blanks)
    let mut stack: Vec<usize> = vec![v];
    for line in lines {
        if line.is_empty() {
            continue;
        }
        let indent = line.chars().take_while(|c| *c == ' ').count();
        if indent < 2 || indent % 2 != 0 {
            return Err(format!("unexpected indentation in {line:?}"));
        }
        let depth = indent / 2;
        let body = &line[indent..];
        let Some(body) = body.strip_prefix('.') else {
            return Err(format!("edge line does not start with '.': {line:?}"));
        };
        let Some((lab, rest)) = body.split_once(" ➞ ν") else {
            return Err(format!("no arrow in {line:?}"));
        };
        let (num, mark) = match rest.strip_suffix('…') {
            Some(n) => (n, true),
            None => (rest, false),
        };
        let Ok(t) = num.parse::<usize>() else {
            return Err(format!("no target id in {line:?}"));
        };
        if depth > stack.len() {
            return Err(format!("line {line:?} is nested deeper than its parent"));
        }
        stack.truncate(depth);
        let src = stack[depth - 1];
        out.push((src, lab.to_string(), t, mark));
        stack.push(t);
    }
    Ok(out)
}

/// Parse Debug/Display text into per-vertex (edges, data text) blocks.
#[allow(clippy::type_complexity)]
fn parse_debug(txt: &str) -> Result<BTreeMap<usize, (Vec<(String, usize)>, Option<String>)>, String> {
    let mut out = BTreeMap::new();
    let mut rest = txt;
    loop {
        let r = rest.trim_start_matches('\n');
        if !r.starts_with('ν') {
            break;
        }
        let Some(end) = r.find('⟧') else {
            return Err("vertex block without ⟧".into());
        };
        let block = &r[..end];
        rest = &r[end + '⟧'.len_utf8()..];
        let Some((head, attrs)) = block.split_once(" -> ⟦") else {
            return Err(format!("no ' -> ⟦' in {block:?}"));
        };
        let Ok(id) = head.trim_start_matches('ν').parse::<usize>() else {
            return Err(format!("bad vertex head {head:?}"));
        };
        let mut edges = vec![];
        let mut data = None;
        if !attrs.is_empty() {
            for a in attrs.split(", ") {
                if let Some(e) = a.strip_prefix("\n\t") {
                    let Some((l, t)) = e.split_once(" ➞ ν") else {
                        return Err(format!("bad edge {e:?}"));
                    };
                    let Ok(t) = t.parse::<usize>() else {
                        return Err(format!("bad edge target {e:?}"));
                    };
                    edges.push((l.to_string(), t));
                } else if data.is_none() {
                    data = Some(a.to_string());
                } else {
                    return Err(format!("two data attributes in block of ν{id}"));
                }
            }
        }
        if out.insert(id, (edges, data)).is_some() {
            return Err(format!("vertex ν{id} is listed twice"));
        }
    }
    // what follows are the member lists "b<k>: {…}" — not judged, but nothing else may follow
    for line in rest.split('\n') {
        if !line.is_empty() && !(line.starts_with('b') && line.contains(": {")) {
            return Err(format!("unexpected line {line:?}"));
        }
    }
    Ok(out)
}

pub(crate) fn check_printers(r: &Runner, st: &mut Stats) -> Option<Failure> {
    let fail = |kind: &str, v: usize, d: String| Some(Failure { prop: "C20".into(), kind: kind.into(), step: v, detail: d });
    let m = &r.m;
    let all = |_: usize, _: usize, _: &Lab| true;
    let alive = m.alive();
    // every present start vertex — for big graphs (> 40 vertices) a fixed sample of 16 starts
    let stride = if alive.len() > 40 { alive.len().div_ceil(16) } else { 1 };
    for v in alive.iter().copied().step_by(stride) {
        st.evals += 1;
        // inspect
        let txt = match catch_unwind(AssertUnwindSafe(|| r.g.inspect(v))) {
            Err(e) => return fail("inspect.panic", v, format!("inspect({v}) panicked: {}", panic_text(e))),
            Ok(Err(e)) => return fail("inspect.err", v, format!("inspect({v}) returned Err: {e:#}")),
            Ok(Ok(t)) => t,
        };
        let recs = match parse_inspect(&txt, v) {
            Ok(r) => r,
            Err(e) => return fail("inspect.format", v, format!("inspect({v}) output cannot be read: {e}\n{txt}")),
        };
        let rset = reach(m, v, &all);
        for x in &rset {
            let mut got: Vec<(String, usize)> = recs.iter().filter(|r| r.0 == *x).map(|r| (r.1.clone(), r.2)).collect();
            got.sort();
            let mut want: Vec<(String, usize)> = m.get(*x).edges.iter().map(|(l, t)| (l.text(), *t)).collect();
            want.sort();
            if got != want {
                let kind = if got.len() > want.len() { "inspect.edge_listed_twice_or_extra" } else { "inspect.edge_missing" };
                return fail(kind, v, format!("inspect({v}): edges listed for reachable ν{x}: {got:?}, it has {want:?}\n{txt}"));
            }
        }
        if has_cycle_or_share(m, &rset) {
            let mut h = std::collections::hash_map::DefaultHasher::new();
            (v, &txt).hash(&mut h);
            st.sub.push(h.finish());
        }
        // v_print
        let vp = match catch_unwind(AssertUnwindSafe(|| r.g.v_print(v))) {
            Ok(Ok(t)) => t,
            other => return fail("v_print.fails", v, format!("v_print({v}): {:?}", other.map(|x| x.map_err(|e| format!("{e:#}"))).map_err(panic_text))),
        };
        let mv = m.get(v);
        let Some(inner) = vp.strip_prefix(&format!("ν{v}⟦")).and_then(|s| s.strip_suffix('⟧')) else {
            return fail("v_print.format", v, format!("v_print({v}) = {vp:?}"));
        };
        let (marker, list) = match inner.strip_prefix("Δ, ") {
            Some(l) => (true, l),
            None => (false, inner),
        };
        if marker != mv.data.is_some() {
            return fail("v_print.data_marker", v, format!("v_print({v}) = {vp:?} but the vertex {} data", if mv.data.is_some() { "has" } else { "has no" }));
        }
        let mut got: Vec<String> = if list.is_empty() { vec![] } else { list.split(", ").map(ToString::to_string).collect() };
        got.sort();
        let mut want: Vec<String> = mv.edges.iter().map(|(l, _)| l.text()).collect();
        want.sort();
        if got != want {
            return fail("v_print.labels", v, format!("v_print({v}) = {vp:?}, labels of the vertex: {want:?}"));
        }
    }
    // Debug and Display
    let (dbg, dsp) = match catch_unwind(AssertUnwindSafe(|| (r.g.debug(), r.g.display()))) {
        Ok(x) => x,
        Err(e) => return fail("debug.panic", 0, format!("Debug/Display panicked: {}", panic_text(e))),
    };
    st.evals += 1;
    if dbg != dsp {
        return fail("debug.display_differs", 0, "Display and Debug print different text".into());
    }
    let blocks = match parse_debug(&dbg) {
        Ok(b) => b,
        Err(e) => return fail("debug.format", 0, format!("Debug output cannot be read: {e}\n{dbg}")),
    };
    let keys: Vec<usize> = blocks.keys().copied().collect();
    if keys != m.alive() {
        return fail("debug.vertex_set", 0, format!("Debug lists vertices {keys:?}, present are {:?}", m.alive()));
    }
    for (v, (edges, data)) in &blocks {
        let mut got = edges.clone();
        got.sort();
        let mut want: Vec<(String, usize)> = m.get(*v).edges.iter().map(|(l, t)| (l.text(), *t)).collect();
        want.sort();
        if got != want {
            return fail("debug.edges", *v, format!("Debug lists edges {got:?} for ν{v}, it has {want:?}"));
        }
        let want_d = m.get(*v).data.as_ref().map(|d| hexs(d));
        if *data != want_d {
            return fail("debug.data", *v, format!("Debug shows data {data:?} for ν{v}, it has {want_d:?}"));
        }
    }
    // the alternate forms {:#?} and {:#}: whatever their layout, every present vertex, every label
    // and every (non-empty) datum must be in the text
    if let Ok((a1, a2)) = catch_unwind(AssertUnwindSafe(|| r.g.debug_alt())) {
        st.evals += 1;
        for (name, text) in [("{:#?}", &a1), ("{:#}", &a2)] {
            for v in m.alive() {
                if !text.contains(&format!("ν{v}")) {
                    return fail("debug.alternate_form", v, format!("{name} does not mention present vertex ν{v}:\n{text}"));
                }
                for (l, _) in &m.get(v).edges {
                    if !text.contains(&l.text()) {
                        return fail("debug.alternate_form", v, format!("{name} does not show label {:?} of ν{v}:\n{text}", l.text()));
                    }
                }
                if let Some(d) = m.get(v).data.as_ref().filter(|d| !d.is_empty()) {
                    if !text.contains(&hexs(d)) {
                        return fail("debug.alternate_form", v, format!("{name} does not show the data {} of ν{v}:\n{text}", hexs(d)));
                    }
                }
            }
        }
    } else {
        return fail("debug.panic", 0, "{:#?} / {:#} panicked".into());
    }
    None
}

// ============================================================================ C18

type Export = Vec<(usize, Vec<(String, usize)>, Option<Vec<u8>>)>;

fn parse_xml(xml: &str) -> Result<Export, String> {
    let pkg = sxd_document::parser::parse(xml).map_err(|e| format!("XML does not parse: {e:?}"))?;
    let doc = pkg.as_document();
    let root = doc.root().children().into_iter().find_map(|c| c.element()).ok_or("no root element")?;
    if root.name().local_part() != "sodg" {
        return Err(format!("root element is {}", root.name().local_part()));
    }
    let mut out = vec![];
    for c in root.children() {
        let Some(v) = c.element() else {
            if c.text().is_some_and(|t| !t.text().trim().is_empty()) {
                return Err("stray text under <sodg>".into());
            }
            continue;
        };
        if v.name().local_part() != "v" {
            return Err(format!("unexpected element <{}>", v.name().local_part()));
        }
        let id: usize = v.attribute_value("id").ok_or("v without id")?.parse().map_err(|_| "bad id")?;
        let mut edges = vec![];
        let mut data = None;
        for k in v.children() {
            let Some(e) = k.element() else { continue };
            match e.name().local_part() {
                "e" => {
                    let a = e.attribute_value("a").ok_or("e without a")?.to_string();
                    let to: usize = e.attribute_value("to").ok_or("e without to")?.parse().map_err(|_| "bad to")?;
                    edges.push((a, to));
                }
                "data" => {
                    let txt: String = e.children().into_iter().filter_map(|t| t.text().map(|t| t.text().to_string())).collect();
                    let mut bytes = vec![];
                    for tok in txt.split_whitespace() {
                        bytes.push(u8::from_str_radix(tok, 16).map_err(|_| format!("bad data token {tok:?}"))?);
                    }
                    if data.replace(bytes).is_some() {
                        return Err(format!("two <data> in v {id}"));
                    }
                }
                other => return Err(format!("unexpected element <{other}> in v {id}")),
            }
        }
        out.push((id, edges, data));
    }
    Ok(out)
}

fn parse_dot(dot: &str) -> Result<Export, String> {
    let mut out: Export = vec![];
    let mut in_body = false;
    for line in dot.split('\n') {
        if !in_body {
            if line.trim_start().starts_with("edge [") {
                in_body = true;
            }
            continue;
        }
        if line == "}" || line.is_empty() {
            continue;
        }
        let l = line.trim_start();
        let Some(rest) = l.strip_prefix('v') else {
            return Err(format!("unexpected DOT line {line:?}"));
        };
        if let Some((from, tail)) = rest.split_once(" -> v") {
            let from: usize = from.parse().map_err(|_| format!("bad edge source in {line:?}"))?;
            let (to, attrs) = tail.split_once(" [label=\"").ok_or(format!("bad edge line {line:?}"))?;
            let to: usize = to.parse().map_err(|_| format!("bad edge target in {line:?}"))?;
            let lab = attrs.split('"').next().unwrap_or("").to_string();
            match out.last_mut() {
                Some(last) if last.0 == from => last.1.push((lab, to)),
                _ => return Err(format!("edge {line:?} does not follow its source node")),
            }
        } else {
            let (id, tail) = rest.split_once("[shape=circle,label=\"ν").ok_or(format!("bad node line {line:?}"))?;
            let id: usize = id.parse().map_err(|_| format!("bad node id in {line:?}"))?;
            if !tail.starts_with(&format!("{id}\"")) {
                return Err(format!("node label does not match id in {line:?}"));
            }
            let data = match tail.split_once("/* ") {
                Some((_, d)) => {
                    let d = d.trim_end().trim_end_matches("*/").trim();
                    let mut bytes = vec![];
                    if d != "--" {
                        for tok in d.split('-') {
                            bytes.push(u8::from_str_radix(tok, 16).map_err(|_| format!("bad data in {line:?}"))?);
                        }
                    }
                    Some(bytes)
                }
                None => None,
            };
            if data.is_some() != tail.contains("color=\"#f96900\"") {
                return Err(format!("data colour and data comment disagree in {line:?}"));
            }
            out.push((id, vec![], data));
        }
    }
    Ok(out)
}

fn check_export(name: &str, ex: &Export, m: &Model) -> Option<(String, String)> {
    let ids: Vec<usize> = ex.iter().map(|x| x.0).collect();
    if ids != m.alive() {
        let kind = if ids.iter().any(|i| !m.present(*i)) { "lists_absent_vertex" } else { "vertex_set_or_order" };
        let show: Vec<usize> = ids.iter().copied().take(40).collect();
        return Some((format!("{name}.{kind}"), format!("{name} has nodes {show:?}{} but the present vertices in ascending order are {:?}", if ids.len() > 40 { " …" } else { "" }, m.alive())));
    }
    for (id, edges, data) in ex {
        let mut got = edges.clone();
        got.sort();
        let mut want: Vec<(String, usize)> = m.get(*id).edges.iter().map(|(l, t)| (l.text(), *t)).collect();
        want.sort();
        if got != want {
            return Some((format!("{name}.edges"), format!("{name}: node {id} has edges {got:?}, the vertex has {want:?}")));
        }
        if *data != m.get(*id).data {
            return Some((format!("{name}.data"), format!("{name}: node {id} has data {data:?}, the vertex has {:?}", m.get(*id).data)));
        }
    }
    None
}

/// Build the same present graph differently: shuffled order, junk created and collected,
/// other capacity, other read status. Only for graphs without dangling edges.
fn rebuild_differently(r: &Runner, variant: u8) -> Option<Runner> {
    let m = &r.m;
    let alive = m.alive();
    if alive.iter().any(|v| m.get(*v).edges.iter().any(|(_, t)| !m.present(*t))) {
        return None;
    }
    let max_id = alive.iter().copied().max().unwrap_or(0);
    let cap = if variant & 1 == 0 { m.cap + 7 } else { (max_id + 1).max(2) + usize::from(variant >> 4) };
    let mut b = Runner::new(Cfg { n: m.n, cap });
    let mut order = alive.clone();
    if variant & 2 != 0 {
        order.reverse();
    }
    let step = |b: &mut Runner, c: Call| -> bool {
        if !b.valid(&c) {
            return false;
        }
        let s = b.step(&c);
        s.panicked.is_none() && !s.desync
    };
    // junk first: a group on two ids that are free in the target graph, collected again
    let free: Vec<usize> = (0..cap).filter(|i| !alive.contains(i)).collect();
    if variant & 4 != 0 && free.len() >= 2 {
        let (x, y) = (free[0], free[free.len() - 1]);
        for c in [Call::Add(x), Call::Add(y), Call::Bind { a: x, b: y, l: Lab::Str("junk".into()), parsed: false }, Call::Put(x, vec![1, 2, 3, 4, 5, 6, 7, 8, 9]), Call::Data(x)] {
            if !step(&mut b, c) {
                return None;
            }
        }
    }
    // one leaf may arrive through merge() instead of add/put/bind (variant bit 64): a vertex t
    // without out-edges and with exactly one in-edge a -l-> t, such that every id below t is alive
    // (then next_id() inside merge() names it t), merged onto a as the tree "root -l-> leaf[data]"
    let via_merge: Option<(usize, Lab, usize)> = if variant & 64 != 0 {
        alive.iter().rev().copied().find_map(|t| {
            if !(0..t).all(|i| alive.contains(&i)) || !m.get(t).edges.is_empty() {
                return None;
            }
            let ins: Vec<(usize, Lab)> = alive.iter().flat_map(|a| m.get(*a).edges.iter().filter(move |(_, x)| *x == t).map(move |(l, _)| (*a, l.clone()))).collect();
            (ins.len() == 1 && ins[0].0 != t).then(|| (ins[0].0, ins[0].1.clone(), t))
        })
    } else {
        None
    };
    let skip_t = via_merge.as_ref().map(|x| x.2);
    for v in &order {
        if Some(*v) != skip_t && !step(&mut b, Call::Add(*v)) {
            return None;
        }
    }
    // data: read status flipped where that is possible without a collection (before binding)
    for v in &order {
        if Some(*v) == skip_t {
            continue;
        }
        if let Some(d) = &m.get(*v).data {
            if !step(&mut b, Call::Put(*v, d.clone())) {
                return None;
            }
            if m.get(*v).unread && variant & 8 != 0 && !step(&mut b, Call::Data(*v)) {
                return None;
            }
        }
    }
    let mut edges: Vec<(usize, Lab, usize)> = vec![];
    for v in &order {
        let mut es = m.get(*v).edges.clone();
        if variant & 2 != 0 {
            es.reverse();
        }
        for (l, t) in es {
            edges.push((*v, l, t));
        }
    }
    if variant & 16 != 0 {
        edges.reverse();
    }
    for (a, l, t) in edges {
        if Some(t) == skip_t {
            continue;
        }
        // more than 14 groups / 16 members may be needed in another order: give up then
        if !step(&mut b, Call::Bind { a, b: t, l, parsed: false }) {
            return None;
        }
    }
    if let Some((a, l, t)) = via_merge {
        use crate::calls::{TNode, TreeSpec};
        let h = TreeSpec {
            cap: 3,
            nodes: vec![
                TNode { id: 2, parent: None, label: None, data: None, read: false },
                TNode { id: 0, parent: Some(0), label: Some(l), data: m.get(t).data.clone(), read: variant & 8 != 0 && m.get(t).data.is_some() },
            ],
            extras: vec![],
            pairs_first: false,
            segment: 0,
        };
        // outside merge()'s domain (a is not the root of a tree, no room): no rebuilt graph
        if !step(&mut b, Call::Merge { h, left: a }) || b.m.alive() != alive || b.m.get(t).data != m.get(t).data {
            return None;
        }
    }
    Some(b)
}

pub(crate) fn check_exports(r: &Runner, variant: u8, st: &mut Stats) -> Option<Failure> {
    let fail = |kind: &str, d: String| Some(Failure { prop: "C18".into(), kind: kind.into(), step: 0, detail: d });
    let m = &r.m;
    st.evals += 1;
    let xml = match catch_unwind(AssertUnwindSafe(|| r.g.to_xml())) {
        Ok(Ok(x)) => x,
        other => return fail("xml.fails", format!("to_xml(): {:?}", other.map(|x| x.map_err(|e| format!("{e:#}"))).map_err(panic_text))),
    };
    let dot = match catch_unwind(AssertUnwindSafe(|| r.g.to_dot())) {
        Ok(x) => x,
        Err(e) => return fail("dot.fails", format!("to_dot() panicked: {}", panic_text(e))),
    };
    match parse_xml(&xml) {
        Err(e) => return fail("xml.format", format!("{e}\n{}", xml.chars().take(1500).collect::<String>())),
        Ok(ex) => {
            if let Some((k, d)) = check_export("xml", &ex, m) {
                return fail(&k, d);
            }
        }
    }
    match parse_dot(&dot) {
        Err(e) => return fail("dot.format", format!("{e}\n{}", dot.chars().take(1500).collect::<String>())),
        Ok(ex) => {
            if let Some((k, d)) = check_export("dot", &ex, m) {
                return fail(&k, d);
            }
        }
    }
    // metamorphic: the same present graph built differently prints the same text
    if let Some(b) = rebuild_differently(r, variant) {
        st.evals += 1;
        let (xb, db) = (b.g.to_xml().unwrap_or_default(), b.g.to_dot());
        if xb != xml {
            return fail("xml.depends_on_construction", format!("the same present graph built differently (capacity {} vs {}, other order/junk/read status) prints different XML:\n{}\n-- vs --\n{}", m.cap, b.m.cap, xml.chars().take(900).collect::<String>(), xb.chars().take(900).collect::<String>()));
        }
        if db != dot {
            return fail("dot.depends_on_construction", format!("the same present graph built differently (capacity {} vs {}) prints different DOT:\n{}\n-- vs --\n{}", m.cap, b.m.cap, dot.chars().take(900).collect::<String>(), db.chars().take(900).collect::<String>()));
        }
        st.sub.push(1);
    }
    None
}

// ============================================================================ engine

pub struct DiEngine {
    pub prop: &'static str,
}

impl DiEngine {
    fn check(&self, c: &DiConcrete, st: &mut Stats) -> (Option<Failure>, Option<Runner>) {
        let Some(r) = replay_calls(c.cfg, &c.calls) else {
            return (None, None);
        };
        let f = match self.prop {
            "C13" => check_slices(&r, c.pred, c.rate, st),
            "C20" => check_printers(&r, st),
            _ => check_exports(&r, c.variant, st),
        };
        (f, Some(r))
    }
}

impl Engine for DiEngine {
    type Case = DiCase;
    fn name(&self) -> &'static str {
        "digraph"
    }
    fn strategy(&self, _: Tier) -> BoxedStrategy<DiCase> {
        di_strategy(true)
    }
    fn run(&self, case: &DiCase) -> CaseReport {
        let (cfg, mut calls) = build_calls(case, self.prop != "C13");
        // one graph in four has shared its place in memory with another graph (which was sliced,
        // inspected and exported there) right before it is judged; one in four was built next to
        // foreign activity on the same thread
        match (case.pred / 5) % 4 {
            1 => calls.push(Call::Masquerade),
            2 => {
                calls.insert(calls.len() / 2, Call::Noise(case.pred));
                calls.push(Call::Noise(case.pred.wrapping_mul(7).wrapping_add(3)));
            }
            _ => {}
        }
        let conc = DiConcrete { cfg, calls, pred: case.pred, rate: case.rate, variant: case.variant };
        let mut st = Stats::default();
        let (failure, r) = self.check(&conc, &mut st);
        let Some(r) = r else {
            return CaseReport { events: vec!["construction_closed"], evaluations: 1, ..Default::default() };
        };
        let m = &r.m;
        let alive = m.alive();
        let mut events = vec![];
        if case.hist.is_some() {
            events.push("graph.from_history_with_collections");
        } else {
            events.push("graph.from_digraph_builder");
        }
        if alive.len() >= 65 {
            events.push("graph.big_65plus_vertices");
        }
        if alive.len() <= 10 && alive.iter().filter(|v| m.get(**v).edges.len() >= 9).count() >= 4 {
            events.push("graph.wide_vertices_with_label_families");
        }
        if alive.len() >= 18 && alive.iter().filter(|v| m.get(**v).edges.len() == 16).count() >= 17 {
            events.push("graph.dense_17plus_full_vertices");
        }
        if alive.iter().any(|v| m.get(*v).edges.iter().any(|(_, t)| !m.present(*t))) {
            events.push("graph.dangling_edge");
        }
        if alive.iter().any(|v| m.get(*v).edges.len() >= 2) {
            events.push("graph.vertex_with_2plus_edges");
        }
        if alive.iter().any(|v| m.get(*v).edges.len() == m.n) {
            events.push("graph.vertex_with_N_edges");
        }
        if alive.iter().any(|v| m.get(*v).data.is_some()) {
            events.push("graph.datum");
        }
        let gap = alive.iter().copied().max().is_some_and(|mx| (0..mx).any(|i| !m.present(i)));
        if gap {
            events.push("graph.absent_id_below_largest");
        }
        let all = |_: usize, _: usize, _: &Lab| true;
        if alive.iter().any(|v| has_cycle_or_share(m, &reach(m, *v, &all))) {
            events.push("graph.cycle_or_shared_target");
        }
        let mut h = std::collections::hash_map::DefaultHasher::new();
        (cfg, &conc.calls, conc.pred, conc.rate % 3, conc.variant).hash(&mut h);
        let (nontrivial, subs) = match self.prop {
            "C18" => (gap && events.contains(&"graph.vertex_with_2plus_edges") && events.contains(&"graph.datum"), vec![]),
            _ => (false, {
                // distinct (graph, start[, predicate]) sub-cases with a cycle or shared target
                let base = h.finish();
                st.sub.iter().map(|s| s ^ base).collect()
            }),
        };
        CaseReport {
            payload: failure.as_ref().map(|_| {
                let mut v = serde_json::to_value(&conc).unwrap();
                v["rendered"] = json!(render_calls(cfg, &conc.calls));
                v
            }),
            failure,
            nontrivial,
            hash: h.finish(),
            events,
            counters: vec![("checked_calls", st.evals), ("start_vertices_outside_quantifier", st.skipped_starts)],
            evaluations: st.evals.max(1),
            sub_hashes: subs,
            ..Default::default()
        }
    }
    fn render(&self, case: &DiCase) -> Value {
        let (cfg, calls) = build_calls(case, self.prop != "C13");
        let mut s = render_calls(cfg, &calls);
        if s.len() > 1400 {
            s = s.chars().take(1400).collect::<String>() + " …";
        }
        let rate = ["all", "half", "none"][(case.rate % 3) as usize];
        json!({"graph_built_by": s, "predicate_seed": case.pred, "accept_rate": rate})
    }
    fn minimise(&self, payload: Value, kind: &str) -> Value {
        let Ok(c) = serde_json::from_value::<DiConcrete>(payload.clone()) else {
            return payload;
        };
        let mut budget = 1500u64;
        let mut pred = |k: &[Call]| self.check(&DiConcrete { calls: k.to_vec(), ..c.clone() }, &mut Stats::default()).0.is_some_and(|f| f.kind == kind);
        if !pred(&c.calls) {
            return payload;
        }
        let calls = ddmin(c.calls.clone(), &mut pred, &mut budget);
        let mut v = serde_json::to_value(DiConcrete { calls: calls.clone(), ..c.clone() }).unwrap();
        v["rendered"] = json!(render_calls(c.cfg, &calls));
        v
    }
    fn replay(&self, payload: &Value) -> Option<Failure> {
        let c: DiConcrete = serde_json::from_value(payload.clone()).ok()?;
        self.check(&c, &mut Stats::default()).0
    }
}

#[allow(dead_code)]
fn unused(g: &dyn G) -> usize {
    g.len()
}

// ------------------------------------------------------------------ datum-length sweep

/// Bounded-exhaustive complement of C18 and C08: EVERY datum length 0..=max on a small
/// graph (exports parsed back / image reloaded), sharded over the workers.
pub struct LengthSweep {
    pub prop: &'static str,
    pub shard: u64,
    pub of: u64,
    pub max: usize,
}

impl LengthSweep {
    fn one(&self, len: usize) -> Option<Failure> {
        let cfg = Cfg { n: 2, cap: 4 };
        let bytes: Vec<u8> = (0..len).map(|i| (i as u8).wrapping_mul(13).wrapping_add((i >> 8) as u8) ^ 0x5A).collect();
        let calls = vec![
            Call::Add(0),
            Call::Add(1),
            Call::Bind { a: 0, b: 1, l: Lab::Alpha(0), parsed: false },
            Call::Put(1, bytes.clone()),
            Call::Put(0, vec![7]),
        ];
        let r = replay_calls(cfg, &calls)?;
        let fail = |kind: &str, d: String| Some(Failure { prop: self.prop.into(), kind: kind.into(), step: len, detail: format!("datum of {len} bytes: {d}") });
        if self.prop == "C18" {
            return check_exports(&r, 0, &mut Stats::default()).map(|mut f| {
                f.step = len;
                f.detail = format!("datum of {len} bytes: {}", f.detail.chars().take(600).collect::<String>());
                f
            });
        }
        // C08: reload and compare the complete observation and the datum itself
        let p = crate::interp::tmp_file("len");
        let res = catch_unwind(AssertUnwindSafe(|| r.g.save(&p).and_then(|_| r.g.load_same(&p))));
        let _ = std::fs::remove_file(&p);
        match res {
            Err(e) => fail("twin.panic", format!("save/load panicked: {}", panic_text(e))),
            Ok(Err(e)) => fail("twin.error", format!("save/load failed: {e:#}")),
            Ok(Ok(mut g2)) => {
                match (try_observe(&*r.g, ObsLevel::FULL), try_observe(&*g2, ObsLevel::FULL)) {
                    (Ok(a), Ok(b)) => {
                        if let Some(d) = diff(&a, &b) {
                            return fail("twin.query_differs", d.chars().take(400).collect());
                        }
                    }
                    _ => return fail("twin.panic", "observing panicked".into()),
                }
                match catch_unwind(AssertUnwindSafe(|| g2.data(1).map(|h| h.to_vec()))) {
                    Ok(Some(d)) if d == bytes => None,
                    other => fail("twin.result_differs", format!("data(1) after the reload = {:?}…", other.map(|o| o.map(|v| v.len())))),
                }
            }
        }
    }
}

impl Engine for LengthSweep {
    type Case = u8;
    fn name(&self) -> &'static str {
        "datum-length-sweep"
    }
    fn strategy(&self, _: Tier) -> BoxedStrategy<u8> {
        Just(0u8).boxed()
    }
    fn run(&self, _: &u8) -> CaseReport {
        let mut lens: Vec<usize> = (0..=self.max).collect();
        for c in [65_536usize, 131_072, 262_144, 1 << 20] {
            lens.extend(c - 24..=c + 24);
        }
        let mut evals = 0u64;
        let mut subs = vec![];
        let mut failure = None;
        for (i, len) in lens.iter().enumerate() {
            if i as u64 % self.of != self.shard {
                continue;
            }
            crate::campaign::touch();
            evals += 1;
            if let Some(f) = self.one(*len) {
                failure = Some(f);
                break;
            }
            subs.push(*len as u64 ^ 0x1E46_0000_0000);
        }
        CaseReport {
            payload: failure.as_ref().map(|f| json!({"datum_length": f.step})),
            failure,
            evaluations: evals,
            sub_hashes: subs,
            events: vec!["bounded-exhaustive: every datum length up to the bound, and +-24 around 64 KiB, 128 KiB, 256 KiB, 1 MiB"],
            ..Default::default()
        }
    }
    fn render(&self, _: &u8) -> Value {
        json!({"graph": "add 0; add 1; bind 0 1 α0; put 1 <L bytes>; put 0 07", "lengths": format!("0..={} and ±24 around 65536, 131072, 262144, 1048576 (this worker: every {}th)", self.max, self.of)})
    }
    fn replay(&self, payload: &Value) -> Option<Failure> {
        self.one(payload["datum_length"].as_u64()? as usize)
    }
}
