pub mod digraph;
pub mod gc;
pub mod hexlab;
pub mod multi;
pub mod prefixes;
pub mod script;
pub mod trees;
pub mod twin;
