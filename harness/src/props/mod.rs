pub mod gc;
