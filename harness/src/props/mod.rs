pub mod gc;
pub mod hexlab;
