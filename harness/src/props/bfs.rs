//! C02, bounded-exhaustive complement: breadth-first exploration of ALL histories over a
//! tiny universe (capacity 4, N = 2, two labels, two data values, add/bind/put/data on
//! every id = 40 calls per state) up to a depth, deduplicated on the complete state
//! (hook snapshot incl. stale slot content + reference model). Every transition is
//! checked by the C02 oracle; states of the last level are also drained by the epilogue.

use crate::calls::{render_calls, Call, Cfg};
use crate::campaign::{CaseReport, Engine, Tier};
use crate::engine::{make_oracle, run_concrete, Epilogue, Failure};
use crate::interp::Runner;
use crate::lab::Lab;
use proptest::prelude::*;
use proptest::strategy::BoxedStrategy;
use serde_json::{json, Value};
use std::collections::HashSet;
use std::hash::{Hash, Hasher};

pub struct BfsEngine {
    pub shard: u64,
    pub of: u64,
    pub depth: usize,
    pub drain_every: usize,
}

const CFG: Cfg = Cfg { n: 2, cap: 4 };

pub fn universe() -> Vec<Call> {
    let mut v = vec![];
    let labels = [Lab::Alpha(0), Lab::Str("ab".into())];
    let data: [Vec<u8>; 2] = [vec![1, 2, 3], vec![9; 9]];
    for i in 0..4 {
        v.push(Call::Add(i));
    }
    for a in 0..4 {
        for b in 0..4 {
            if a != b {
                for l in &labels {
                    v.push(Call::Bind { a, b, l: l.clone(), parsed: false });
                }
            }
        }
    }
    for i in 0..4 {
        for d in &data {
            v.push(Call::Put(i, d.clone()));
        }
    }
    for i in 0..4 {
        v.push(Call::Data(i));
    }
    v
}

fn state_hash(r: &Runner) -> u64 {
    let mut h = std::collections::hash_map::DefaultHasher::new();
    let s = r.g.snapshot();
    // the allocator never moves here; everything else (incl. stale content of absent slots) counts
    (&s.slots, &s.branches, &s.stores).hash(&mut h);
    // model: vertices with data/unread/edges and the partition into groups (by members, not by id)
    for v in 0..r.m.cap {
        match &r.m.v[v] {
            None => 0u8.hash(&mut h),
            Some(x) => {
                (1u8, &x.edges, &x.data, x.unread).hash(&mut h);
                x.group.map(|g| r.m.groups[&g].iter().copied().collect::<Vec<usize>>()).hash(&mut h);
            }
        }
    }
    h.finish()
}

fn replay(path: &[u8], uni: &[Call]) -> Runner {
    let mut r = Runner::new(CFG);
    for i in path {
        r.step(&uni[*i as usize]);
    }
    r
}

impl BfsEngine {
    fn explore(&self) -> (Option<(Failure, Vec<Call>)>, Vec<u64>, u64, u64, Vec<u64>) {
        let uni = universe();
        let mut seen: HashSet<u64> = HashSet::new();
        let mut frontier: Vec<Vec<u8>> = vec![vec![]];
        let mut transitions = 0u64;
        let mut drained = 0u64;
        let mut levels = vec![];
        seen.insert(state_hash(&Runner::new(CFG)));
        let mut oracle = make_oracle("C02");
        for depth in 0..self.depth {
            let mut next: Vec<Vec<u8>> = vec![];
            for (pi, path) in frontier.iter().enumerate() {
                // sharding: the sub-trees below depth 2 are divided among the workers
                if depth == 2 {
                    let mut h = std::collections::hash_map::DefaultHasher::new();
                    path.hash(&mut h);
                    if h.finish() % self.of != self.shard {
                        continue;
                    }
                }
                let _ = pi;
                crate::campaign::touch();
                for (ci, call) in uni.iter().enumerate() {
                    let mut r = replay(path, &uni);
                    if !r.valid(call) {
                        continue;
                    }
                    let s = r.step(call);
                    transitions += 1;
                    if let Some(mut f) = oracle.check(&mut r, &s, None) {
                        f.prop = "C02".into();
                        let mut calls: Vec<Call> = path.iter().map(|i| uni[*i as usize].clone()).collect();
                        calls.push(call.clone());
                        return (Some((f, calls)), seen.into_iter().collect(), transitions, drained, levels);
                    }
                    if seen.insert(state_hash(&r)) {
                        let mut p = path.clone();
                        p.push(ci as u8);
                        next.push(p);
                    }
                }
            }
            levels.push(next.len() as u64);
            frontier = next;
            if frontier.is_empty() {
                break;
            }
        }
        // drain a fixed subset (every k-th) of the last level's states through the epilogue
        for (i, path) in frontier.iter().enumerate() {
            if i % self.drain_every != 0 {
                continue;
            }
            crate::campaign::touch();
            let mut r = replay(path, &uni);
            let mut ep = Epilogue::new(&r.m, (i & 0xffff) as u16);
            let mut calls: Vec<Call> = path.iter().map(|i| uni[*i as usize].clone()).collect();
            while let Some((c, _)) = ep.next(&r.m) {
                if !r.valid(&c) {
                    continue;
                }
                let s = r.step(&c);
                calls.push(c);
                transitions += 1;
                if let Some(mut f) = oracle.check(&mut r, &s, None) {
                    f.prop = "C02".into();
                    return (Some((f, calls)), seen.into_iter().collect(), transitions, drained, levels);
                }
                if s.desync || s.panicked.is_some() {
                    break;
                }
            }
            drained += 1;
        }
        (None, seen.into_iter().collect(), transitions, drained, levels)
    }
}

impl Engine for BfsEngine {
    type Case = u8;
    fn name(&self) -> &'static str {
        "bfs"
    }
    fn strategy(&self, _: Tier) -> BoxedStrategy<u8> {
        Just(0u8).boxed()
    }
    fn run(&self, _: &u8) -> CaseReport {
        let (fail, state_hashes, transitions, drained, levels) = self.explore();
        let states = state_hashes.len() as u64;
        let (failure, payload) = match fail {
            Some((f, calls)) => (Some(f), Some(json!({"cfg": CFG, "calls": calls, "rendered": render_calls(CFG, &calls)}))),
            None => (None, None),
        };
        // every explored state is a distinct (deduplicated) history class; they are counted by weight
        CaseReport {
            failure,
            payload,
            nontrivial: false,
            hash: 0xB5F0_0000 + self.shard,
            sub_hashes: state_hashes,
            evaluations: transitions,
            events: vec!["bounded-exhaustive BFS over the 40-call universe (capacity 4, N 2)"],
            counters: vec![
                ("bfs_distinct_states", states),
                ("bfs_transitions_checked", transitions),
                ("bfs_last_level_states_drained", drained),
                ("bfs_depth", self.depth as u64),
                ("bfs_last_level_width", levels.last().copied().unwrap_or(0)),
            ],
            ..Default::default()
        }
    }
    fn render(&self, _: &u8) -> Value {
        json!({"universe": universe().iter().map(Call::render).collect::<Vec<_>>(), "config": CFG, "depth": self.depth, "shard": format!("{}/{}", self.shard, self.of)})
    }
    fn minimise(&self, payload: Value, kind: &str) -> Value {
        let Ok(calls) = serde_json::from_value::<Vec<Call>>(payload["calls"].clone()) else {
            return payload;
        };
        let mut budget = 2000u64;
        let mut pred = |c: &[Call]| {
            let mut o = make_oracle("C02");
            run_concrete(CFG, c, &mut *o, None).failure.is_some_and(|f| f.kind == kind)
        };
        if !pred(&calls) {
            return payload;
        }
        let min = crate::campaign::ddmin(calls, &mut pred, &mut budget);
        json!({"cfg": CFG, "calls": min, "rendered": render_calls(CFG, &min)})
    }
    fn replay(&self, payload: &Value) -> Option<Failure> {
        let cfg: Cfg = serde_json::from_value(payload["cfg"].clone()).ok()?;
        let calls: Vec<Call> = serde_json::from_value(payload["calls"].clone()).ok()?;
        let mut o = make_oracle("C02");
        run_concrete(cfg, &calls, &mut *o, None).failure.map(|mut f| {
            f.prop = "C02".into();
            f
        })
    }
}
