//! C11 (merge of trees grafts without loss) and C12 (merge never silently drops part of
//! the right graph): generated pairs of trees built through the API.

use crate::calls::{render_calls, Call, Cfg, TExtra, TNode, TreeSpec};
use crate::campaign::{ddmin, CaseReport, Engine, Tier};
use crate::engine::{Driver, Failure, Oracle, C02, C03};
use crate::gen::{self, data_bytes, idx};
use crate::graph::hex_of;
use crate::interp::{build_tree, panic_text, plan_merge, Exp, Ret, Runner, StepInfo};
use crate::lab::Lab;
use crate::obs::Obs;
use proptest::prelude::*;
use proptest::strategy::BoxedStrategy;
use serde::{Deserialize, Serialize};
use serde_json::{json, Value};
use std::collections::BTreeSet;
use std::hash::{Hash, Hasher};
use std::panic::{catch_unwind, AssertUnwindSafe};

pub type NodeSeed = (u8, u8, u8, u8, u8);

#[derive(Debug, Clone, PartialEq, Eq, Serialize, Deserialize)]
pub struct TreeCase {
    pub n_sel: u8,
    pub cap_sel: u8,
    pub junk: Vec<(u8, u8)>,
    pub g: Vec<NodeSeed>,
    pub h: Vec<NodeSeed>,
    pub left_sel: u8,
    pub extras: Vec<(u8, u8, u8)>,
    pub order_sel: u16,
    pub again: bool,
    /// wide mode: both roots are stars whose kids carry the labels selected by these two
    /// masks over an 18-label pool (wide vertices with overlapping label sets)
    #[serde(default)]
    pub wide: Option<(u32, u32)>,
    /// mirror mode (see `mirror()`): many-group chains on both sides
    #[serde(default)]
    pub mirror: Option<u8>,
}

#[derive(Debug, Clone, PartialEq, Eq, Serialize, Deserialize)]
pub struct TreeConcrete {
    pub cfg: Cfg,
    /// junk + construction of g, then the merge (and possibly the same merge again)
    pub calls: Vec<Call>,
    pub order_sel: u16,
}

fn tree_labels() -> [Lab; 4] {
    [Lab::Alpha(0), Lab::Str("foo".into()), Lab::Greek('ρ'), Lab::Str("bar".into())]
}

/// The four labels of a case: the ordinary ones, or a family of labels that collide under
/// lossy comparisons (code points equal modulo 256 / modulo 65536, ASCII case, a common
/// 16-byte prefix) — different labels all the same, so h's path must be created beside g's.
fn case_labels(sel: u8) -> [Lab; 4] {
    match sel % 8 {
        5 => [Lab::Str("ах".into()), Lab::Str("0E".into()), Lab::Str("да".into()), Lab::Str("40".into())],
        6 => [Lab::Str("foo".into()), Lab::Str("Foo".into()), Lab::Greek('\u{10430}'), Lab::Greek('\u{0430}')],
        7 => [Lab::Str("数据节点甲一".into()), Lab::Str("数据节点甲二".into()), Lab::Alpha(256), Lab::Alpha(0)],
        _ => tree_labels(),
    }
}

fn wide_labels() -> Vec<Lab> {
    let mut v: Vec<Lab> = (0..10).map(Lab::Alpha).collect();
    v.extend(["foo", "bar", "abcdefgh", "k1", "k2"].iter().map(|s| Lab::Str((*s).to_string())));
    v.extend([Lab::Greek('ρ'), Lab::Greek('x'), Lab::Greek('φ')]);
    v
}

/// A star: the root plus one kid per set bit of the mask (at most n kids), plus the
/// ordinary generated sub-tree hanging below the first kid.
fn shape_wide(mask: u32, seeds: &[NodeSeed], n: usize) -> Vec<(Option<usize>, Option<Lab>)> {
    let labels = wide_labels();
    let mut nodes: Vec<(Option<usize>, Option<Lab>)> = vec![(None, None)];
    for (i, l) in labels.iter().enumerate() {
        if (mask >> i) & 1 == 1 && nodes.len() - 1 < n.min(13) {
            nodes.push((Some(0), Some(l.clone())));
        }
    }
    if nodes.len() > 1 && n >= 2 {
        let below = shape(seeds, n, &tree_labels());
        let base = nodes.len();
        for (p, l) in below.iter().skip(1).take(3) {
            let parent = match p {
                Some(0) | None => 1,
                Some(k) => base + k - 1,
            };
            // a tree built by binds is one group: at most 16 members
            if parent < nodes.len() && nodes.len() < 16 {
                nodes.push((Some(parent), l.clone()));
            }
        }
    }
    nodes
}

/// Shape a tree from node seeds: (parent index, label) per node; node 0 is the root.
fn shape(seeds: &[NodeSeed], n: usize, labels: &[Lab; 4]) -> Vec<(Option<usize>, Option<Lab>)> {
    let mut nodes: Vec<(Option<usize>, Option<Lab>)> = vec![(None, None)];
    for (i, s) in seeds.iter().enumerate().skip(1) {
        let _ = i;
        let cnt = nodes.len();
        for dp in 0..cnt {
            let p = (s.0 as usize + dp) % cnt;
            let used: Vec<Lab> = nodes.iter().filter(|x| x.0 == Some(p)).map(|x| x.1.clone().unwrap()).collect();
            if used.len() >= n.min(4) {
                continue;
            }
            if let Some(l) = (0..4).map(|k| labels[(s.1 as usize + k) % 4].clone()).find(|l| !used.contains(l)) {
                nodes.push((Some(p), Some(l)));
                break;
            }
        }
    }
    nodes
}

fn node_data(s: &NodeSeed) -> (Option<Vec<u8>>, bool) {
    if s.2 % 3 == 0 {
        (None, false)
    } else {
        (Some(data_bytes(u16::from(s.2) << 8, u16::from(s.3) * 257)), s.2 % 7 == 0)
    }
}

fn make_h(case: &TreeCase, n: usize, with_extras: bool) -> TreeSpec {
    let sh = match case.wide {
        Some((_, mh)) if !with_extras => shape_wide(mh, &case.h, n),
        _ => shape(&case.h, n, &case_labels(case.order_sel as u8)),
    };
    // small right graphs mostly; every fourth one lives in a 256-slot store with large ids
    let hcap = if case.wide.is_some() && !with_extras {
        24usize
    } else if case.cap_sel & 3 == 3 {
        256usize
    } else {
        12usize
    };
    // arbitrary distinct ids
    let mut free: Vec<usize> = (0..hcap).collect();
    let mut nodes = vec![];
    for (i, (p, l)) in sh.iter().enumerate() {
        let s = case.h[i.min(case.h.len() - 1)];
        // one right graph in eight has the ids 0, 1, 2, … in node order (interp::build_tree then
        // takes them from next_id()); its extras get explicit ids above them
        let id = if case.order_sel % 8 == 5 { free.remove(0) } else { free.remove(idx(u16::from(s.3) << 8, free.len())) };
        let (data, read) = node_data(&s);
        nodes.push(TNode { id, parent: *p, label: l.clone(), data, read });
    }
    let mut extras = vec![];
    if with_extras {
        let labels = tree_labels();
        for (i, (a, b, c)) in case.extras.iter().enumerate() {
            if free.is_empty() {
                break;
            }
            let id = free.remove(idx(u16::from(*a) << 8, free.len()));
            let parent = if i > 0 && b % 3 == 0 { Some((*b as usize / 3) % i) } else { None };
            // at most N out-edges per extra (children + the edge to `right`), distinct labels
            let out_edges = |p: usize, extras: &Vec<TExtra>| extras.iter().filter(|e| e.parent == Some(p)).count() + usize::from(extras[p].points_to_root.is_some());
            let label = parent.and_then(|p| {
                let mut used: Vec<Lab> = extras.iter().filter(|e: &&TExtra| e.parent == Some(p)).map(|e| e.label.clone().unwrap()).collect();
                if let Some(l) = &extras[p].points_to_root {
                    used.push(l.clone());
                }
                if out_edges(p, &extras) >= n.min(4) {
                    None
                } else {
                    (0..4).map(|k| labels[(*c as usize + k) % 4].clone()).find(|l| !used.contains(l))
                }
            });
            let parent = if label.is_some() { parent } else { None };
            let points_to_root = if parent.is_none() && b % 5 == 1 { Some(labels[*c as usize % 4].clone()) } else { None };
            extras.push(TExtra {
                id,
                parent,
                label,
                data: if c % 2 == 0 { Some(data_bytes(u16::from(*c) << 8, u16::from(*a))) } else { None },
                points_to_root,
                read: c % 4 == 0 && a % 2 == 0,
            });
        }
    }
    TreeSpec { cap: hcap, nodes, extras, pairs_first: false, segment: 0 }
}

/// Mirror mode: g and the reachable part of h are the same chain of 2(k+1) vertices,
/// each built from separately bound pairs that are linked afterwards, so that both
/// graphs consist of many groups (up to 13, plus one for a detached pair of extras in
/// h); the merge then creates nothing and stays within every limit.
fn mirror(case: &TreeCase, k: u8, with_extras: bool) -> (Vec<Call>, TreeSpec, usize) {
    let len = 2 * (1 + (k as usize % 13));
    let labs = [Lab::Alpha(0), Lab::Str("foo".into())];
    let mut calls: Vec<Call> = (0..len).map(Call::Add).collect();
    for pass in 0..2 {
        for i in 1..len {
            if (pass == 0) == (i % 2 == 1) {
                calls.push(Call::Bind { a: i - 1, b: i, l: labs[i % 2].clone(), parsed: false });
            }
        }
    }
    for i in 0..len {
        if (case.order_sel >> (i % 16)) & 1 == 1 {
            calls.push(Call::Put(i, vec![i as u8; 1 + (i % 3) * 4]));
        }
    }
    // some of g's data are read before the merge, where that collects nothing (the model decides)
    {
        let mut r = Runner::new(Cfg { n: 16, cap: len + 4 });
        for c in &calls {
            r.step(c);
        }
        for i in 0..len {
            if (case.n_sel as usize >> (i % 8)) & 1 == 1 && r.m.present(i) {
                let v = r.m.get(i);
                if v.unread && v.group.is_some_and(|g| r.m.unread_in_group(g) > 1) {
                    let c = Call::Data(i);
                    r.step(&c);
                    calls.push(c);
                }
            }
        }
    }
    let rev = case.left_sel & 1 == 1;
    let nodes: Vec<TNode> = (0..len)
        .map(|i| TNode {
            id: if rev { len - 1 - i } else { i },
            parent: if i == 0 { None } else { Some(i - 1) },
            label: if i == 0 { None } else { Some(labs[i % 2].clone()) },
            // a third of h's data are byte-identical to what g holds at the same place
            data: if (case.cap_sel as usize >> (i % 8)) & 1 == 1 {
                if (case.order_sel >> (i % 16)) & 1 == 1 && (case.left_sel as usize + i) % 3 != 0 {
                    Some(vec![i as u8; 1 + (i % 3) * 4])
                } else {
                    Some(vec![0x40 + i as u8; 2 + (i % 2) * 8])
                }
            } else {
                None
            },
            read: false,
        })
        .collect();
    let mut extras = vec![];
    if with_extras && !case.extras.is_empty() {
        // a detached pair created last (its own group), possibly an isolated vertex whose datum was read
        extras.push(TExtra { id: len, parent: None, label: None, data: Some(vec![1]), points_to_root: None, read: false });
        extras.push(TExtra { id: len + 1, parent: Some(0), label: Some(Lab::Alpha(0)), data: None, points_to_root: None, read: false });
        if case.extras.len() >= 2 {
            extras.push(TExtra { id: len + 2, parent: None, label: None, data: Some(vec![2; 9]), points_to_root: None, read: case.extras[1].0 % 2 == 0 });
        }
    }
    (calls, TreeSpec { cap: len + 4, nodes, extras, pairs_first: true, segment: 0 }, 0)
}

/// Build the concrete calls: junk that is created and completely collected, then g.
fn make_calls(case: &TreeCase, cfg: Cfg) -> Option<(Vec<Call>, Vec<usize>)> {
    let mut r = Runner::new(cfg);
    let mut calls: Vec<Call> = vec![];
    let push = |r: &mut Runner, c: Call, calls: &mut Vec<Call>| -> bool {
        if !r.valid(&c) {
            return false;
        }
        let s = r.step(&c);
        calls.push(c);
        s.panicked.is_none() && !s.desync
    };
    // junk: pairs at generated ids, bound, given a datum, read -> collected
    for (a, b) in &case.junk {
        let absent = r.m.absent_ids();
        if absent.len() < 2 {
            break;
        }
        let x = absent[idx(u16::from(*a) << 8, absent.len())];
        let rest: Vec<usize> = absent.iter().copied().filter(|i| *i != x).collect();
        let y = rest[idx(u16::from(*b) << 8, rest.len())];
        let seq = if b % 4 == 0 {
            vec![Call::NextId, Call::Add(x), Call::Add(y)]
        } else {
            vec![Call::Add(x), Call::Add(y)]
        };
        for c in seq {
            if matches!(c, Call::NextId) && r.m.allocator_room() < 12 {
                continue;
            }
            if !push(&mut r, c, &mut calls) {
                return None;
            }
        }
        let d = data_bytes(u16::from(*a) << 8, u16::from(*b));
        for c in [Call::Bind { a: x, b: y, l: Lab::Str("junk".into()), parsed: false }, Call::Put(y, d), Call::Bind { a: y, b: x, l: Lab::Alpha(7), parsed: false }, Call::Data(y)] {
            if !push(&mut r, c, &mut calls) {
                return None;
            }
        }
    }
    // vertices that the junk phase left behind (from NextIdAdd) are read to stay neutral: they are ungrouped and stay
    let leftovers = r.m.alive();
    // g: a tree over absent ids
    let sh = match case.wide {
        Some((mg, _)) => shape_wide(mg, &case.g, cfg.n),
        None => shape(&case.g, cfg.n, &case_labels(case.order_sel as u8)),
    };
    let mut free = r.m.absent_ids();
    if free.len() < sh.len() {
        return None;
    }
    let mut ids = vec![];
    for i in 0..sh.len() {
        let s = case.g[i.min(case.g.len() - 1)];
        ids.push(free.remove(idx(u16::from(s.3) << 8, free.len())));
    }
    for id in &ids {
        if !push(&mut r, Call::Add(*id), &mut calls) {
            return None;
        }
    }
    // data that is put (and possibly read) before binding
    for (i, id) in ids.iter().enumerate() {
        let s = case.g[i.min(case.g.len() - 1)];
        let (data, read) = node_data(&s);
        if let Some(d) = data {
            if read || s.4 % 2 == 0 {
                if !push(&mut r, Call::Put(*id, d), &mut calls) {
                    return None;
                }
                if read && !push(&mut r, Call::Data(*id), &mut calls) {
                    return None;
                }
            }
        }
    }
    // edges in a generated order (so that the tree may span several groups)
    let mut edges: Vec<(u8, usize)> = (1..sh.len()).map(|i| (case.g[i.min(case.g.len() - 1)].4, i)).collect();
    edges.sort();
    for (_, i) in edges {
        let (p, l) = &sh[i];
        let c = Call::Bind { a: ids[p.unwrap()], b: ids[i], l: l.clone().unwrap(), parsed: false };
        if !push(&mut r, c, &mut calls) {
            return None;
        }
    }
    for (i, id) in ids.iter().enumerate() {
        let s = case.g[i.min(case.g.len() - 1)];
        let (data, read) = node_data(&s);
        if let Some(d) = data {
            if !(read || s.4 % 2 == 0) && !push(&mut r, Call::Put(*id, d), &mut calls) {
                return None;
            }
        }
    }
    let _ = leftovers;
    Some((calls, ids))
}

// ------------------------------------------------------------------------ C11 oracle

pub struct C11 {
    c02: C02,
    c03: C03,
    pub merges: u32,
    pub new_vertices: usize,
    pub shared_paths: usize,
}

impl C11 {
    pub fn new() -> Self {
        Self { c02: C02, c03: C03::new(), merges: 0, new_vertices: 0, shared_paths: 0 }
    }
}
impl Default for C11 {
    fn default() -> Self {
        Self::new()
    }
}

fn f11(kind: &str, s: &StepInfo, d: String) -> Option<Failure> {
    Some(Failure { prop: "C11".into(), kind: kind.into(), step: s.idx, detail: d })
}

impl Oracle for C11 {
    fn prop(&self) -> &'static str {
        "C11"
    }
    fn owns_panic(&self, c: &Call) -> bool {
        matches!(c, Call::Merge { .. })
    }
    fn check(&mut self, r: &mut Runner, s: &StepInfo, ob: Option<(&Obs, &Obs)>) -> Option<Failure> {
        if let Call::Merge { h, left } = &s.call {
            self.merges += 1;
            if let Some(p) = &s.panicked {
                return f11("merge.panic", s, format!("{} panicked: {p}", s.call.render()));
            }
            if let Ret::Merge(Err(e)) = &s.ret {
                return f11("merge.err_on_trees", s, format!("{} returned Err: {e}", s.call.render()));
            }
            if let Some(d) = &s.h_changed {
                return f11("merge.changed_right_graph", s, format!("the right graph changed: {d}"));
            }
            match &s.exp {
                Exp::Broken(e) => return f11("merge.not_a_graft", s, format!("{}: {e}", s.call.render())),
                Exp::Grafted { new_ids, .. } => {
                    // (v) exactly one new vertex per path g lacked, under ids that were absent
                    let appeared: Vec<usize> = s.keys_after.iter().copied().filter(|k| !s.keys_before.contains(k)).collect();
                    let mut want = new_ids.clone();
                    want.sort_unstable();
                    if appeared != want {
                        return f11("merge.vertex_count", s, format!(
                            "{} created vertices {appeared:?}; the h paths that g lacked need exactly {want:?}", s.call.render()));
                    }
                    let gone: Vec<usize> = s.keys_before.iter().copied().filter(|k| !s.keys_after.contains(k)).collect();
                    if !gone.is_empty() {
                        return f11("merge.lost_vertices", s, format!("{} removed vertices {gone:?}", s.call.render()));
                    }
                    self.new_vertices += new_ids.len();
                    self.shared_paths += h.nodes.len() - 1 - new_ids.len().min(h.nodes.len() - 1);
                    // (ii) every path of h exists from left and ends in a vertex with h's bytes; distinct -> distinct
                    let mut map = vec![usize::MAX; h.nodes.len()];
                    map[0] = *left;
                    for i in 1..h.nodes.len() {
                        let p = map[h.nodes[i].parent.unwrap()];
                        match r.g.kid(p, h.nodes[i].label.as_ref().unwrap().direct()) {
                            Some(t) => map[i] = t,
                            None => return f11("merge.path_missing", s, format!("after the merge kid({p},{}) is None", h.nodes[i].label.as_ref().unwrap().text())),
                        }
                    }
                    let set: BTreeSet<usize> = map.iter().copied().collect();
                    if set.len() != map.len() {
                        return f11("merge.not_injective", s, format!("distinct h vertices landed on the same g vertex: {map:?}"));
                    }
                }
                _ => {}
            }
        }
        // (iv)+(vi): g equals the model (edges, data presence) after every call, data bytes on reads, alive sets
        if let Some(mut f) = self.c02.check(r, s, ob) {
            f.prop = "C11".into();
            f.kind = format!("after_merge.{}", f.kind);
            return Some(f);
        }
        if let Some(mut f) = self.c03.check(r, s, ob) {
            f.prop = "C11".into();
            f.kind = format!("after_merge.{}", f.kind);
            return Some(f);
        }
        None
    }
}

// ------------------------------------------------------------------------ engines

pub struct TreeEngine {
    /// C12 mode: the right graph carries unreachable extras
    pub extras: bool,
}

fn tree_strategy() -> BoxedStrategy<TreeCase> {
    let node = (any::<u8>(), any::<u8>(), any::<u8>(), any::<u8>(), any::<u8>());
    (
        any::<u8>(),
        any::<u8>(),
        proptest::collection::vec((any::<u8>(), any::<u8>()), 0..=5),
        proptest::collection::vec(node, 1..=8),
        proptest::collection::vec(node, 1..=8),
        any::<u8>(),
        proptest::collection::vec((any::<u8>(), any::<u8>(), any::<u8>()), 0..=4),
        any::<u16>(),
        any::<bool>(),
        proptest::option::weighted(0.2, (any::<u32>(), any::<u32>())),
    )
        .prop_flat_map(|t| (Just(t), proptest::option::weighted(0.06, any::<u8>())))
        .prop_map(|((n_sel, cap_sel, junk, g, h, left_sel, extras, order_sel, again, wide), mirror)| {
            // wide stars want sparse-ish masks so that the union often fits: AND two draws
            let wide = wide.map(|(a, b)| (a & a.rotate_left(7) | (b & 0x111), b & b.rotate_left(5) | (a & 0x111)));
            TreeCase { n_sel, cap_sel, junk, g, h, left_sel, extras, order_sel, again, wide: if mirror.is_some() { None } else { wide }, mirror }
        })
        .boxed()
}

fn case_cfg(case: &TreeCase) -> Cfg {
    let n = if case.wide.is_some() && case.n_sel & 1 == 0 { 16 } else { gen::pick_n(case.n_sel) };
    if let Some(k) = case.mirror {
        if case.n_sel & 4 == 4 {
            // tight store: the merge of the mirror chains creates nothing, so this is within the limits
            let len = 2 * (1 + (k as usize % 13));
            return Cfg { n, cap: len + (case.cap_sel as usize % 3) };
        }
    }
    let need = case.g.len() + case.h.len() + 2 * case.junk.len() + 6 + if case.wide.is_some() || case.mirror.is_some() { 40 } else { 0 };
    // sometimes a store with no slack beyond what the construction can need
    let need = if case.n_sel & 12 == 8 && case.wide.is_none() && case.mirror.is_none() { case.g.len() + case.h.len() + 2 * case.junk.len() } else { need };
    let cap = if case.n_sel & 12 == 8 { need.max(2) } else { gen::pick_cap(case.cap_sel).max(need) };
    Cfg { n, cap }
}

impl TreeEngine {
    /// C11: run the calls with the C11 oracle, then the drain epilogue.
    pub fn run_c11(cfg: Cfg, calls: &[Call], order_sel: u16) -> (Option<Failure>, crate::engine::CaseOutcome, (u32, usize, usize)) {
        let mut o = C11::new();
        let out;
        {
            let mut d = Driver::new(cfg, &mut o);
            let mut ok = true;
            for c in calls {
                if !d.step(c) {
                    ok = false;
                    break;
                }
            }
            d.out.gen_calls = d.out.calls.len();
            if ok {
                d.epilogue(order_sel);
            }
            out = d.out;
        }
        (out.failure.clone(), out, (o.merges, o.new_vertices, o.shared_paths))
    }

    /// C12: Ok iff nothing of the right graph is unreachable; the Err names what was missed.
    fn run_c12(cfg: Cfg, calls: &[Call], h: &TreeSpec, left: usize) -> (Option<Failure>, bool) {
        let fail = |kind: &str, d: String| Some(Failure { prop: "C12".into(), kind: kind.into(), step: calls.len(), detail: d });
        let mut r = Runner::new(cfg);
        for c in calls {
            let s = r.step(c);
            if s.skipped || s.panicked.is_some() || s.desync {
                return (None, false);
            }
        }
        if !r.m.present(left) {
            return (None, false);
        }
        // the reachable part must be mergeable within the limits
        let reach_only = TreeSpec { extras: vec![], ..h.clone() };
        if !plan_merge(&r.m, &reach_only, left).is_some_and(|k| k <= r.m.allocator_room()) {
            return (None, false);
        }
        let hg = build_tree(cfg.n, h);
        let unreachable: BTreeSet<usize> = h.extras.iter().map(|e| e.id).collect();
        let res = catch_unwind(AssertUnwindSafe(|| r.g.merge(&*hg, left, h.root())));
        match res {
            Err(p) => (fail("merge.panic", format!("merge with {} unreachable right vertices panicked: {}", unreachable.len(), panic_text(p))), true),
            Ok(Ok(())) => {
                if unreachable.is_empty() {
                    (None, true)
                } else {
                    (fail("merge.ok_despite_unreachable", format!("merge() returned Ok although present right vertices {unreachable:?} are not reachable from right={}", h.root())), true)
                }
            }
            Ok(Err(e)) => {
                let msg = format!("{e:#}");
                if unreachable.is_empty() {
                    return (fail("merge.err_on_trees", format!("merge() of two trees returned Err: {msg}")), true);
                }
                let tail = msg.rsplit("missed:").next().unwrap_or(&msg);
                let named: BTreeSet<usize> = tail
                    .split(|c: char| !(c.is_ascii_digit() || c == 'ν'))
                    .filter_map(|t| t.strip_prefix('ν').and_then(|d| d.parse::<usize>().ok()))
                    .collect();
                let missing: Vec<usize> = unreachable.iter().copied().filter(|u| !named.contains(u)).collect();
                if missing.is_empty() {
                    (None, true)
                } else {
                    (fail("merge.err_does_not_name_missed", format!("unreachable right vertices {unreachable:?}; the error names {named:?} (not {missing:?}): {msg}")), true)
                }
            }
        }
    }
}

impl Engine for TreeEngine {
    type Case = TreeCase;
    fn name(&self) -> &'static str {
        "treegen"
    }
    fn strategy(&self, _: Tier) -> BoxedStrategy<TreeCase> {
        tree_strategy()
    }
    fn run(&self, case: &TreeCase) -> CaseReport {
        let cfg = case_cfg(case);
        let (mut calls, left, h) = if let Some(k) = case.mirror {
            let (c, h, l) = mirror(case, k, self.extras);
            (c, l, h)
        } else {
            let Some((calls, gids)) = make_calls(case, cfg) else {
                return CaseReport { events: vec!["construction_closed"], evaluations: 1, ..Default::default() };
            };
            let left = if case.wide.is_some() && !self.extras && case.left_sel & 3 != 0 { gids[0] } else { gids[idx(u16::from(case.left_sel) << 8, gids.len())] };
            (calls, left, make_h(case, cfg.n, self.extras))
        };
        let mut hs = std::collections::hash_map::DefaultHasher::new();
        (cfg, &calls, &h, left).hash(&mut hs);
        if self.extras {
            let (failure, ran) = Self::run_c12(cfg, &calls, &h, left);
            let detached = h.extras.iter().any(|e| e.parent.is_some());
            let mut events = vec![];
            if !ran {
                events.push("not_mergeable_within_limits_skipped");
            }
            if h.extras.is_empty() {
                events.push("control.no_extras");
            }
            if detached {
                events.push("extras.detached_subtree");
            }
            if h.extras.iter().any(|e| e.points_to_root.is_some()) {
                events.push("extras.ancestor_of_right");
            }
            if h.extras.iter().any(|e| e.data.is_some()) {
                events.push("extras.with_data");
            }
            if h.extras.iter().any(|e| e.read) {
                events.push("extras.datum_already_read");
            }
            if case.mirror.is_some() {
                events.push("mirror.many_group_chains");
                if h.nodes.len() >= 26 {
                    events.push("mirror.right_graph_with_14_groups");
                }
            }
            return CaseReport {
                payload: failure.as_ref().map(|_| json!({"cfg": cfg, "calls": calls, "h": h, "left": left, "rendered": format!("{} ; then merge of {}", render_calls(cfg, &calls), Call::Merge { h: h.clone(), left }.render())})),
                failure,
                nontrivial: ran && !h.extras.is_empty() && detached,
                hash: hs.finish(),
                events,
                evaluations: 1,
                ..Default::default()
            };
        }
        let merge = Call::Merge { h: h.clone(), left };
        calls.push(merge.clone());
        if case.again {
            calls.push(merge);
        }
        let (failure, out, (merges, newv, shared)) = Self::run_c11(cfg, &calls, case.order_sel);
        let mut events: Vec<&'static str> = vec![];
        if merges == 0 {
            events.push("merge_out_of_limits_skipped");
        }
        if let Some(c) = out.closed {
            events.push(c);
        }
        if !case.junk.is_empty() {
            events.push("g.after_collected_junk");
        }
        if out.max_groups_alive >= 2 {
            events.push("g.spans_2plus_groups");
        }
        if case.g.len() == 1 && case.wide.is_none() {
            events.push("g.singleton");
        }
        if case.mirror.is_some() {
            events.push("mirror.many_group_chains");
        }
        if case.wide.is_some() {
            events.push("wide_stars");
            if out.max_labels >= 9 {
                events.push("wide.vertex_with_9plus_labels");
            }
        }
        if merges >= 2 {
            events.push("merged_twice");
        }
        let has_datum = h.nodes.iter().any(|n| n.data.is_some());
        let nontrivial = merges >= 1 && out.closed.is_none() && h.nodes.len() >= 3 && shared >= 1 && newv >= 1 && has_datum && out.groups_died >= 1;
        CaseReport {
            payload: failure.as_ref().map(|_| serde_json::to_value(TreeConcrete { cfg, calls: out.calls.clone(), order_sel: case.order_sel }).map(|mut v| {
                v["rendered"] = json!(render_calls(cfg, &out.calls));
                v
            }).unwrap()),
            failure,
            nontrivial,
            hash: hs.finish(),
            events,
            counters: vec![("new_vertices", newv as u64), ("shared_paths", shared as u64), ("calls", out.calls.len() as u64)],
            evaluations: 1,
            ..Default::default()
        }
    }
    fn render(&self, case: &TreeCase) -> Value {
        let cfg = case_cfg(case);
        match make_calls(case, cfg) {
            Some((calls, gids)) => {
                let left = gids[idx(u16::from(case.left_sel) << 8, gids.len())];
                let h = make_h(case, cfg.n, self.extras);
                json!({"g_built_by": render_calls(cfg, &calls), "merge": Call::Merge { h, left }.render(), "merged_twice": case.again && !self.extras})
            }
            None => json!("closed"),
        }
    }
    fn minimise(&self, payload: Value, kind: &str) -> Value {
        if self.extras {
            return payload;
        }
        let Ok(c) = serde_json::from_value::<TreeConcrete>(payload.clone()) else {
            return payload;
        };
        let mut budget = 2000u64;
        let mut pred = |k: &[Call]| Self::run_c11(c.cfg, k, c.order_sel).0.is_some_and(|f| f.kind == kind);
        if !pred(&c.calls) {
            return payload;
        }
        let calls = ddmin(c.calls.clone(), &mut pred, &mut budget);
        let mut v = serde_json::to_value(TreeConcrete { calls: calls.clone(), ..c.clone() }).unwrap();
        v["rendered"] = json!(render_calls(c.cfg, &calls));
        v
    }
    fn replay(&self, payload: &Value) -> Option<Failure> {
        if self.extras {
            let cfg: Cfg = serde_json::from_value(payload["cfg"].clone()).ok()?;
            let calls: Vec<Call> = serde_json::from_value(payload["calls"].clone()).ok()?;
            let h: TreeSpec = serde_json::from_value(payload["h"].clone()).ok()?;
            let left = payload["left"].as_u64()? as usize;
            return Self::run_c12(cfg, &calls, &h, left).0;
        }
        let c: TreeConcrete = serde_json::from_value(payload.clone()).ok()?;
        // the saved list already contains the epilogue calls executed before the failure
        let mut o = C11::new();
        let mut d = Driver::new(c.cfg, &mut o);
        for call in &c.calls {
            if !d.step(call) {
                break;
            }
        }
        let mut f = d.out.failure.clone();
        if f.is_none() {
            d.epilogue(c.order_sel);
            f = d.out.failure.clone();
        }
        f
    }
}

#[allow(dead_code)]
fn unused() {
    let _ = hex_of(&[]);
}

// ------------------------------------------------------------------ bounded-exhaustive part

/// All rooted trees with up to `max` vertices whose edges carry labels from a 2-label pool
/// (distinct under one parent), as parent/label vectors in canonical (parent-before-child) order.
fn all_shapes(max: usize) -> Vec<Vec<(Option<usize>, Option<Lab>)>> {
    let labels = [Lab::Alpha(0), Lab::Str("foo".into())];
    let mut out: Vec<Vec<(Option<usize>, Option<Lab>)>> = vec![vec![(None, None)]];
    let mut frontier = out.clone();
    for _ in 1..max {
        let mut next = vec![];
        for t in &frontier {
            // attach one more vertex under any existing vertex with an unused label; to avoid
            // generating the same tree in several orders, the new vertex must not precede the last one
            let last_parent = t.last().and_then(|x| x.0).unwrap_or(0);
            for p in last_parent..t.len() {
                for l in &labels {
                    if t.iter().any(|x| x.0 == Some(p) && x.1.as_ref() == Some(l)) {
                        continue;
                    }
                    // same parent: labels in increasing pool order only
                    if p == last_parent && t.len() > 1 && t.last().unwrap().1.as_ref() == Some(&labels[1]) && *l == labels[0] {
                        continue;
                    }
                    let mut n = t.clone();
                    n.push((Some(p), Some(l.clone())));
                    next.push(n);
                }
            }
        }
        out.extend(next.iter().cloned());
        frontier = next;
    }
    out
}

pub struct TreeEnumEngine {
    pub max: usize,
}

impl Engine for TreeEnumEngine {
    type Case = u8;
    fn name(&self) -> &'static str {
        "treegen-enum"
    }
    fn strategy(&self, _: Tier) -> BoxedStrategy<u8> {
        Just(0u8).boxed()
    }
    fn run(&self, _: &u8) -> CaseReport {
        let shapes = all_shapes(self.max);
        let cfg = Cfg { n: 2, cap: 16 };
        let mut evals = 0u64;
        let mut subs = vec![];
        let mut failure = None;
        let mut payload = None;
        let data_of = |bit: bool, i: usize, long: bool| if bit { Some(if long { vec![i as u8 + 1; 9] } else { vec![i as u8 + 1] }) } else { None };
        'all: for (gi, gs) in shapes.iter().enumerate() {
            for gmask in 0..(1u32 << gs.len()) {
                // g: ids 0..n, edges in order, data after the binds (odd masks: the root's datum before)
                let mut base: Vec<Call> = (0..gs.len()).map(Call::Add).collect();
                if gmask & 1 == 1 && gi % 2 == 1 {
                    base.push(Call::Put(0, vec![1; 9]));
                }
                for (i, (p, l)) in gs.iter().enumerate().skip(1) {
                    base.push(Call::Bind { a: p.unwrap(), b: i, l: l.clone().unwrap(), parsed: false });
                }
                for i in 0..gs.len() {
                    if (gmask >> i) & 1 == 1 && !(i == 0 && gi % 2 == 1) {
                        base.push(Call::Put(i, data_of(true, i, i % 2 == 0).unwrap()));
                    }
                }
                for left in 0..gs.len() {
                    crate::campaign::touch();
                    for hs in &shapes {
                        for hmask in 0..(1u32 << hs.len()) {
                            let nodes: Vec<TNode> = hs
                                .iter()
                                .enumerate()
                                .map(|(i, (p, l))| TNode { id: hs.len() - 1 - i, parent: *p, label: l.clone(), data: data_of((hmask >> i) & 1 == 1, i + 4, i % 2 == 1), read: false })
                                .collect();
                            let h = TreeSpec { cap: 8, nodes, extras: vec![], pairs_first: false, segment: 0 };
                            let mut calls = base.clone();
                            calls.push(Call::Merge { h, left });
                            evals += 1;
                            let (f, out, (merges, _, _)) = TreeEngine::run_c11(cfg, &calls, (gmask as u16) << 4 | hmask as u16);
                            if merges >= 1 {
                                use std::hash::{Hash, Hasher};
                                let mut hsh = std::collections::hash_map::DefaultHasher::new();
                                calls.hash(&mut hsh);
                                subs.push(hsh.finish());
                            }
                            if let Some(f) = f {
                                payload = Some(serde_json::to_value(TreeConcrete { cfg, calls: out.calls.clone(), order_sel: 0 }).map(|mut v| {
                                    v["rendered"] = json!(render_calls(cfg, &out.calls));
                                    v
                                }).unwrap());
                                failure = Some(f);
                                break 'all;
                            }
                        }
                    }
                }
            }
        }
        CaseReport {
            failure,
            payload,
            evaluations: evals,
            sub_hashes: subs,
            events: vec!["bounded-exhaustive: every pair of trees up to the size bound over 2 labels, every data placement, every left"],
            counters: vec![("enumerated_shapes", shapes.len() as u64), ("enumerated_merges", evals)],
            ..Default::default()
        }
    }
    fn render(&self, _: &u8) -> Value {
        json!({"enumeration": format!("all pairs of rooted trees with <= {} vertices, labels {{α0, foo}}, every data placement (short/long), every left vertex", self.max)})
    }
    fn replay(&self, payload: &Value) -> Option<Failure> {
        TreeEngine { extras: false }.replay(payload)
    }
}

// ------------------------------------------------------------------ merge-depth sweep

/// Bounded-exhaustive complement of C11 and C12: chains of EVERY depth up to the bound
/// (built in runs of 15 so that every group stays within 16 members, i.e. up to 14 groups),
/// merged onto the same chain (or one that is 1..3 vertices shorter), with 0..3 unreachable
/// extras on the right side.
pub struct DepthSweep {
    pub extras: bool,
    pub shard: u64,
    pub of: u64,
    pub max: usize,
}

impl DepthSweep {
    fn build(len: usize, shorter: usize, extras: usize) -> (Cfg, Vec<Call>, TreeSpec) {
        let labs = [Lab::Alpha(0), Lab::Str("foo".into())];
        let glen = len - shorter.min(len - 1);
        let cfg = Cfg { n: 2, cap: len + 6 };
        let mut calls: Vec<Call> = (0..glen).map(Call::Add).collect();
        for pass in 0..2 {
            for i in 1..glen {
                if (pass == 0) == (i % 15 == 1) {
                    calls.push(Call::Bind { a: i - 1, b: i, l: labs[i % 2].clone(), parsed: false });
                }
            }
        }
        for i in (0..glen).step_by(7) {
            calls.push(Call::Put(i, vec![i as u8; 1 + (i % 3) * 5]));
        }
        let nodes: Vec<TNode> = (0..len)
            .map(|i| TNode {
                id: len - 1 - i,
                parent: if i == 0 { None } else { Some(i - 1) },
                label: if i == 0 { None } else { Some(labs[i % 2].clone()) },
                data: if i % 5 == 2 || i + 1 == len { Some(vec![0x30 + (i % 64) as u8; 2 + (i % 2) * 9]) } else { None },
                read: false,
            })
            .collect();
        let ex = (0..extras).map(|k| TExtra { id: len + k, parent: None, label: None, data: if k % 2 == 0 { Some(vec![k as u8 + 1; 3]) } else { None }, points_to_root: None, read: false }).collect();
        (cfg, calls, TreeSpec { cap: len + 6, nodes, extras: ex, pairs_first: false, segment: 15 })
    }

    /// (failure, the merge was executed and judged)
    fn one(&self, len: usize, shorter: usize, extras: usize) -> (Option<Failure>, bool) {
        let (cfg, mut calls, h) = Self::build(len, shorter, extras);
        let (f, judged) = if self.extras {
            TreeEngine::run_c12(cfg, &calls, &h, 0)
        } else {
            calls.push(Call::Merge { h, left: 0 });
            let (f, _, (merges, _, _)) = TreeEngine::run_c11(cfg, &calls, len as u16);
            (f, merges >= 1)
        };
        (
            f.map(|mut f| {
                f.detail = format!("chain of depth {len} merged onto a chain of {} vertices, {extras} unreachable extras: {}", len - shorter.min(len - 1), f.detail.chars().take(600).collect::<String>());
                f
            }),
            judged,
        )
    }

    fn points(&self) -> Vec<(usize, usize, usize)> {
        let mut v = vec![];
        for len in 1..=self.max {
            for shorter in [0usize, 1, 3] {
                for extras in if self.extras { 0..4usize } else { 0..1 } {
                    v.push((len, shorter, extras));
                }
            }
        }
        v
    }
}

impl Engine for DepthSweep {
    type Case = u8;
    fn name(&self) -> &'static str {
        "merge-depth-sweep"
    }
    fn strategy(&self, _: Tier) -> BoxedStrategy<u8> {
        Just(0u8).boxed()
    }
    fn run(&self, _: &u8) -> CaseReport {
        let mut evals = 0u64;
        let mut subs = vec![];
        let mut failure = None;
        let mut payload = None;
        let mut skipped = 0u64;
        for (i, (len, shorter, extras)) in self.points().into_iter().enumerate() {
            if i as u64 % self.of != self.shard {
                continue;
            }
            crate::campaign::touch();
            let (f, judged) = self.one(len, shorter, extras);
            if !judged && f.is_none() {
                skipped += 1;
                continue;
            }
            evals += 1;
            if let Some(f) = f {
                payload = Some(json!({"depth": len, "shorter": shorter, "extras": extras}));
                failure = Some(f);
                break;
            }
            subs.push((len as u64) << 16 | (shorter as u64) << 8 | extras as u64 | 0xDE97_0000_0000);
        }
        CaseReport {
            payload,
            failure,
            evaluations: evals,
            sub_hashes: subs,
            counters: vec![("points_outside_the_limits_skipped", skipped)],
            events: vec!["bounded-exhaustive: every chain depth up to the bound, left chain equal / 1 / 3 shorter, 0..3 unreachable extras (C12)"],
            ..Default::default()
        }
    }
    fn render(&self, _: &u8) -> Value {
        json!({"depths": format!("1..={}", self.max), "left_chain": "same depth, 1 shorter, 3 shorter", "unreachable_extras": if self.extras { "0..=3" } else { "0" }, "this_worker": format!("every {}th point", self.of)})
    }
    fn replay(&self, payload: &Value) -> Option<Failure> {
        self.one(payload["depth"].as_u64()? as usize, payload["shorter"].as_u64()? as usize, payload["extras"].as_u64()? as usize).0
    }
}
