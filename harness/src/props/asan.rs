//! C07: memory safety and the panic contract of limit overruns. The engine is meant to
//! run inside a build with AddressSanitizer (or MemorySanitizer) and debug assertions:
//! a memory error aborts the worker process, which the parent reports together with the
//! in-flight case. Two generators: (1) in-domain history, then one call that exceeds
//! exactly one limit and must panic; (2) anything goes, panics tolerated.

use crate::calls::{render_calls, Call, Cfg, TNode, TreeSpec};
use crate::campaign::{CaseReport, Engine, Tier};
use crate::engine::{Driver, Failure, Oracle};
use crate::gen::{self, hist_strategy, idx, HistSeed, Profile};
use crate::graph::{hex_of, new_graph, G};
use crate::interp::{build_tree, panic_text, Runner, StepInfo};
use crate::lab::{pool, Lab};
use crate::model::{MAX_GROUP, MAX_GROUPS};
use crate::obs::Obs;
use proptest::prelude::*;
use proptest::strategy::BoxedStrategy;
use serde::{Deserialize, Serialize};
use serde_json::{json, Value};
use std::hash::{Hash, Hasher};
use std::panic::{catch_unwind, AssertUnwindSafe};

pub type RawOp = (u8, u16, u16, u16);

#[derive(Debug, Clone, PartialEq, Eq, Serialize, Deserialize)]
pub struct AsanCase {
    pub n_sel: u8,
    pub cap_sel: u8,
    /// true = in-domain history then one overrun; false = anything goes
    pub strict: bool,
    pub hist: HistSeed,
    pub raw: Vec<RawOp>,
    pub overrun: (u8, u16, u16),
}

pub fn asan_cfg(n_sel: u8, cap_sel: u8) -> Cfg {
    const NS: [usize; 4] = [1, 2, 4, 16];
    Cfg { n: NS[(n_sel as usize * 4) >> 8], cap: 1 + ((cap_sel as usize * 40) >> 8) }
}

/// No call inside the preconditions and limits may panic.
pub struct NoPanic;
impl Oracle for NoPanic {
    fn prop(&self) -> &'static str {
        "C07"
    }
    fn owns_panic(&self, _: &Call) -> bool {
        true
    }
    fn check(&mut self, _: &mut Runner, s: &StepInfo, _: Option<(&Obs, &Obs)>) -> Option<Failure> {
        s.panicked.as_ref().map(|p| Failure {
            prop: "C07".into(),
            kind: "panic_within_limits".into(),
            step: s.idx,
            detail: format!("{} is inside the limits but panicked: {p}", s.call.render()),
        })
    }
}

/// One call that exceeds exactly one limit, described for the replay file.
#[derive(Debug, Clone, PartialEq, Eq, Hash, Serialize, Deserialize)]
pub enum Overrun {
    Add(usize),
    Bind(usize, usize, Lab),
    Put(usize),
    Data(usize),
    Kid(usize),
    Kids(usize),
    Slice(usize),
    Inspect(usize),
    VPrint(usize),
    Merge(usize),
    /// (N+1)-th label on vertex a (bound to b)
    ExtraLabel(usize, usize, Lab),
    /// 17th member: add(x); bind(x, member)
    ExtraMember(usize, usize),
}

fn exec_overrun(g: &mut dyn G, o: &Overrun, n: usize) -> Result<(), String> {
    let r = catch_unwind(AssertUnwindSafe(|| match o {
        Overrun::Add(v) => g.add(*v),
        Overrun::Bind(a, b, l) | Overrun::ExtraLabel(a, b, l) => g.bind(*a, *b, l.direct()),
        Overrun::Put(v) => g.put(*v, &hex_of(&[1, 2, 3])),
        Overrun::Data(v) => {
            let _ = g.data(*v);
        }
        Overrun::Kid(v) => {
            let _ = g.kid(*v, Lab::Alpha(0).direct());
        }
        Overrun::Kids(v) => {
            let _ = g.kids(*v);
        }
        Overrun::Slice(v) => {
            let _ = g.slice(*v);
        }
        Overrun::Inspect(v) => {
            let _ = g.inspect(*v);
        }
        Overrun::VPrint(v) => {
            let _ = g.v_print(*v);
        }
        Overrun::Merge(left) => {
            let h = build_tree(n, &TreeSpec {
                cap: 4,
                nodes: vec![
                    TNode { id: 0, parent: None, label: None, data: Some(vec![7; 9]), read: false },
                    TNode { id: 1, parent: Some(0), label: Some(Lab::Alpha(0)), data: None, read: false },
                ],
                extras: vec![],
                pairs_first: false,
                segment: 0,
            });
            let _ = g.merge(&*h, *left, 0);
        }
        Overrun::ExtraMember(x, m) => {
            g.add(*x);
            g.bind(*x, *m, Lab::Alpha(0).direct());
        }
    }));
    r.map_err(panic_text)
}

/// Choose the overrunning call; may first extend the history (in-domain) to reach the limit.
fn pick_overrun(d: &mut Driver, sel: (u8, u16, u16)) -> Option<Overrun> {
    let (k, a, b) = sel;
    let cap = d.r.m.cap;
    let beyond = cap + (a as usize % 3);
    let pres = d.r.m.alive();
    let some_present = pres.first().copied();
    let labels = pool();
    Some(match k % 16 {
        0 => Overrun::Add(beyond),
        1 => Overrun::Bind(beyond, some_present.unwrap_or(0), Lab::Alpha(0)),
        2 => Overrun::Bind(some_present?, beyond, Lab::Alpha(0)),
        3 => Overrun::Put(beyond),
        4 => Overrun::Data(beyond),
        5 => Overrun::Kid(beyond),
        6 => Overrun::Kids(beyond),
        7 => Overrun::Slice(beyond),
        8 => Overrun::Inspect(beyond),
        9 => Overrun::VPrint(beyond),
        10 => Overrun::Merge(beyond),
        11 | 12 => {
            // fill a vertex to exactly N labels (in-domain), then one more
            let v = *pres.get(idx(a, pres.len().max(1)))?;
            let others: Vec<usize> = pres.iter().copied().filter(|x| *x != v).collect();
            let w = *others.get(idx(b, others.len().max(1)))?;
            let mut li = 0;
            while d.r.m.get(v).edges.len() < d.r.m.n {
                let l = labels.iter().skip(li).find(|l| !d.r.m.get(v).edges.iter().any(|(x, _)| x == *l))?.clone();
                li += 1;
                let c = Call::Bind { a: v, b: w, l, parsed: false };
                if !d.r.valid(&c) || !d.step(&c) {
                    return None;
                }
            }
            let l = labels.iter().find(|l| !d.r.m.get(v).edges.iter().any(|(x, _)| x == *l))?.clone();
            // the extra bind must not ALSO exceed a group limit
            let (gv, gw) = (d.r.m.get(v).group, d.r.m.get(w).group);
            match (gv, gw) {
                (None, None) if d.r.m.groups_alive() >= MAX_GROUPS => return None,
                (Some(g), None) | (None, Some(g)) if d.r.m.group_size(g) >= MAX_GROUP => return None,
                _ => {}
            }
            Overrun::ExtraLabel(v, w, l)
        }
        14 | 15 => {
            // the 17th member arrives through a bind() that repeats an existing edge: the edge
            // v.l -> t dangles since t's group was collected, t was added again (ungrouped),
            // v's group is grown to exactly 16 members (all in-domain), then bind(v, t, l)
            if cap < 22 {
                return None;
            }
            let find = |m: &crate::model::Model| {
                m.alive().into_iter().find_map(|v| {
                    let x = m.get(v);
                    x.group?;
                    x.edges.iter().find(|(_, t)| *t != v && m.present(*t) && m.get(*t).group.is_none()).map(|(l, t)| (v, l.clone(), *t))
                })
            };
            let mut cand = find(&d.r.m);
            if cand.is_none() {
                let ab = d.r.m.absent_ids();
                if ab.len() < 20 || d.r.m.groups_alive() + 2 > MAX_GROUPS {
                    return None;
                }
                let (p, q, r, t) = (ab[0], ab[1], ab[2], ab[3]);
                let l = labels[idx(b, labels.len())].clone();
                let x = Lab::Greek('x');
                let pre = [
                    Call::Add(p), Call::Add(q), Call::Add(r), Call::Add(t),
                    Call::Bind { a: p, b: q, l: x.clone(), parsed: false },
                    Call::Bind { a: r, b: t, l: x.clone(), parsed: false },
                    Call::Bind { a: p, b: r, l: if d.r.m.n >= 2 && l != x { l } else { x }, parsed: false },
                    Call::Put(q, vec![1; 9]),
                    Call::Put(t, vec![3]),
                    Call::Data(t),
                    Call::Add(r),
                ];
                for c in pre {
                    if !d.r.valid(&c) || !d.step(&c) {
                        return None;
                    }
                }
                cand = find(&d.r.m);
            }
            let (v, l, t) = cand?;
            let g = d.r.m.get(v).group?;
            while d.r.m.group_size(g) < MAX_GROUP {
                let x = *d.r.m.absent_ids().first()?;
                for c in [Call::Add(x), Call::Bind { a: x, b: v, l: Lab::Alpha(0), parsed: false }] {
                    if !d.r.valid(&c) || !d.step(&c) {
                        return None;
                    }
                }
            }
            Overrun::Bind(v, t, l)
        }
        _ => {
            // grow a group to exactly 16 members (in-domain), then a 17th
            if cap < 18 {
                return None;
            }
            let grouped: Vec<usize> = pres.iter().copied().filter(|x| d.r.m.get(*x).group.is_some()).collect();
            let member = match grouped.get(idx(a, grouped.len().max(1))) {
                Some(m) => *m,
                None => {
                    let absent = d.r.m.absent_ids();
                    if absent.len() < 2 || d.r.m.groups_alive() >= MAX_GROUPS {
                        return None;
                    }
                    for c in [Call::Add(absent[0]), Call::Add(absent[1]), Call::Bind { a: absent[0], b: absent[1], l: Lab::Alpha(0), parsed: false }] {
                        if !d.r.valid(&c) || !d.step(&c) {
                            return None;
                        }
                    }
                    absent[0]
                }
            };
            let g = d.r.m.get(member).group?;
            while d.r.m.group_size(g) < MAX_GROUP {
                let x = *d.r.m.absent_ids().first()?;
                for c in [Call::Add(x), Call::Bind { a: x, b: member, l: Lab::Alpha(0), parsed: false }] {
                    if !d.r.valid(&c) || !d.step(&c) {
                        return None;
                    }
                }
            }
            let x = *d.r.m.absent_ids().first()?;
            Overrun::ExtraMember(x, member)
        }
    })
}

/// Anything goes: raw calls with ids up to cap+2, every call under catch_unwind, the same
/// graph is used on after a panic. Returns (calls, panics).
/// Text for Hex::from_str / Label::from_str built from seeds: n hex digits with a dash
/// pattern, or arbitrary characters.
fn seed_text(a: u16, b: u16, c: u16) -> String {
    const CH: [char; 16] = ['0', '9', 'a', 'F', '-', '-', 'α', 'ρ', '𝜑', ' ', 'x', '+', '7', 'Z', '中', '\u{a0}'];
    let n = (a % 48) as usize;
    let mut s = String::new();
    if c & 1 == 0 {
        for i in 0..n {
            s.push(['0', '1', '8', '9', 'a', 'c', 'E', 'F'][((b as usize >> (i % 13)) ^ i) & 7]);
            // dashes: none, canonical (after every pair), or a sparse pattern
            match (c >> 1) & 3 {
                1 if i % 2 == 1 && i + 1 < n => s.push('-'),
                2 if (b >> (i % 16)) & 1 == 1 => s.push('-'),
                _ => {}
            }
        }
    } else {
        for i in 0..n.min(24) {
            s.push(CH[((b as usize >> (i % 12)) + i * (c as usize >> 3)) & 15]);
        }
    }
    s
}

/// Calls of the value types' own API (Hex, Label) under catch_unwind: their results are
/// not judged here (C15–C17 do that), only the sanitizer listens.
fn misc_api(a: u16, b: u16, c: u16) -> bool {
    use std::str::FromStr;
    catch_unwind(AssertUnwindSafe(|| {
        let t = seed_text(a, b, c);
        if let Ok(h) = sodg::Hex::from_str(&t) {
            let _ = (h.len(), h.print(), h.to_vec(), h.to_i64().ok(), h.to_f64().ok(), h.to_utf8().ok());
            let other = hex_of(&crate::gen::data_bytes(b, c));
            let j = h.concat(&other).concat(&h);
            let _ = j.tail((a as usize) % (j.len() + 1)).print();
            let _ = catch_unwind(AssertUnwindSafe(|| j[(a as usize % 20)..(b as usize % 20)].to_vec()));
            let _ = catch_unwind(AssertUnwindSafe(|| j.byte_at(c as usize % 40)));
        }
        if let Ok(l) = sodg::Label::from_str(&t) {
            let _ = (l.to_string(), format!("{l:?}"));
            let mut g = new_graph(2, 3);
            g.add(0);
            g.add(1);
            g.bind(0, 1, l);
            let _ = (g.kid(0, l), g.to_xml().map(|x| x.len()), g.to_dot().len(), g.inspect(0).map(|x| x.len()));
        }
    }))
    .is_err()
}

/// Scenario: far beyond the group-count limit, at large ids. 14 groups are formed on low
/// ids, then `extra` more pairs of ungrouped vertices with large ids are bound (each bind
/// is outside the limits; panics are tolerated), then the graph is cloned, printed, saved
/// and sliced. Returns the number of tolerated panics.
fn exhaust_groups(n: usize, cap: usize, extra: usize, seed: u16) -> u64 {
    let mut g = new_graph(n, cap);
    let mut panics = 0u64;
    let mut call = |f: &mut dyn FnMut(&mut Box<dyn G>), g: &mut Box<dyn G>| {
        if catch_unwind(AssertUnwindSafe(|| f(g))).is_err() {
            panics += 1;
        }
    };
    for i in 0..14 {
        call(&mut |g| { g.add(2 * i); g.add(2 * i + 1); g.bind(2 * i, 2 * i + 1, Lab::Alpha(0).direct()); g.put(2 * i, &hex_of(&[i as u8; 9])); }, &mut g);
    }
    let top = cap - 1;
    for j in 0..extra {
        let (x, y) = (top - 2 * j, top - 2 * j - 1);
        if y < 30 {
            break;
        }
        let swap = (seed >> (j % 16)) & 1 == 1;
        call(&mut |g| { g.add(x); g.add(y); if swap { g.bind(y, x, Lab::Alpha(0).direct()) } else { g.bind(x, y, Lab::Alpha(0).direct()) } }, &mut g);
    }
    let mut c2: Option<Box<dyn G>> = None;
    call(&mut |g| { c2 = Some(g.clone_box()); }, &mut g);
    call(&mut |g| { let _ = (g.debug(), g.keys(), g.to_xml().map(|x| x.len())); }, &mut g);
    if let Some(mut c) = c2 {
        call(&mut |g| { let _ = g.debug(); let _ = g.data(0); let _ = g.data(2); }, &mut c);
    }
    call(&mut |g| { let p = crate::interp::tmp_file("c07x"); let _ = g.save(&p).and_then(|_| g.load_same(&p)).map(|l| l.debug()); let _ = std::fs::remove_file(&p); }, &mut g);
    call(&mut |g| { let _ = g.slice(top).map(|s| s.debug()); let _ = g.inspect(top); }, &mut g);
    for i in 0..14 {
        call(&mut |g| { let _ = g.data(2 * i); }, &mut g);
    }
    call(&mut |g| { let _ = (g.debug(), g.keys()); }, &mut g);
    panics
}

pub fn run_raw(cfg: Cfg, ops: &[RawOp]) -> (u64, u64) {
    let mut g = new_graph(cfg.n, cfg.cap);
    let labels = pool();
    let mut panics = 0u64;
    let mut calls = 0u64;
    let span = cfg.cap + 3;
    // one sequence in 8 starts with the group-exhaustion scenario on a larger store
    if let Some((k, a, b, _)) = ops.first() {
        if k % 8 == 0 {
            let cap = [64usize, 300, 400, 600][(*a as usize) % 4];
            panics += exhaust_groups(cfg.n, cap, 4 + (*b as usize % 20), *a ^ *b);
            calls += 40;
        }
    }
    for (k, a, b, c) in ops {
        let (x, y) = (*a as usize % span, *b as usize % span);
        let l = labels[*c as usize % labels.len()].direct();
        calls += 1;
        let mut replacement: Option<Box<dyn G>> = None;
        let gr = &mut g;
        if k % 32 >= 24 {
            // value-type API (Hex::from_str with and without dashes, Label::from_str, concat, tail, ranges)
            if misc_api(*a, *b, *c) {
                panics += 1;
            }
            continue;
        }
        let r = catch_unwind(AssertUnwindSafe(|| match k % 32 {
            0 | 1 | 2 => gr.add(x),
            3..=7 => gr.bind(x, y, l),
            8 | 9 => gr.put(x, &hex_of(&crate::gen::data_bytes(*b, *c))),
            10 | 11 => {
                let _ = gr.data(x);
            }
            12 => {
                let _ = gr.kid(x, l);
            }
            13 => {
                let _ = gr.kids(x);
            }
            14 => {
                let _ = gr.next_id();
            }
            15 => replacement = Some(gr.clone_box()),
            16 => {
                let _ = gr.slice(x).map(|s| s.keys());
            }
            17 => {
                let _ = gr.slice_some(x, &|p, q, _| (p + q + *c as usize) % 3 != 0).map(|s| s.len());
            }
            18 => {
                // merge with a copy of itself or a small cyclic graph: not trees
                let h: Box<dyn G> = if c % 2 == 0 {
                    gr.clone_box()
                } else {
                    let mut h = new_graph(gr.n(), 4);
                    h.add(0);
                    h.add(1);
                    h.add(2);
                    h.bind(0, 1, Lab::Alpha(0).direct());
                    h.bind(1, 0, Lab::Alpha(0).direct());
                    if c % 3 != 0 {
                        h.bind(1, 2, Lab::Greek('x').direct());
                    }
                    h.put(1, &hex_of(&[9; 12]));
                    h
                };
                let _ = gr.merge(&*h, x, y % 4);
            }
            19 => {
                let p = crate::interp::tmp_file("c07");
                if gr.save(&p).is_ok() {
                    if let Ok(l) = gr.load_same(&p) {
                        replacement = Some(l);
                    }
                }
                let _ = std::fs::remove_file(&p);
            }
            20 => {
                let _ = gr.to_xml();
                let _ = gr.to_dot();
            }
            21 => {
                let _ = gr.inspect(x);
                let _ = gr.v_print(x);
            }
            22 => {
                let _ = gr.debug();
                let _ = gr.keys();
                let _ = gr.len();
                let _ = gr.is_empty();
                let _ = gr.display();
                let _ = gr.debug_alt();
            }
            _ => {
                let _ = gr.deploy(&format!("ADD({x}); BIND({x}, {y}, foo); PUT({y}, {:02X}-01);", c & 0xff));
            }
        }));
        if r.is_err() {
            panics += 1;
        }
        if let Some(n) = replacement {
            g = n;
        }
    }
    (calls, panics)
}

pub struct AsanEngine;

impl AsanEngine {
    fn run_strict(cfg: Cfg, calls_in: Option<&[Call]>, hs: Option<&HistSeed>, sel: (u8, u16, u16), fixed: Option<&Overrun>) -> (Option<Failure>, Vec<Call>, Option<Overrun>, Vec<&'static str>) {
        let mut o = NoPanic;
        let mut d = Driver::new(cfg, &mut o);
        let mut events = vec![];
        if let Some(calls) = calls_in {
            for c in calls {
                if !d.step(c) {
                    break;
                }
            }
        } else if let Some(hs) = hs {
            let profiles = [Profile::Limit, Profile::GcOrders, Profile::Forest, Profile::Queries];
            let profile = profiles[(hs.profile_sel as usize * profiles.len()) >> 8];
            for seed in &hs.ops {
                if let Some(call) = gen::resolve(seed, &d.r.m, profile) {
                    if !d.step(&call) {
                        break;
                    }
                }
            }
        }
        if d.out.failure.is_some() || d.out.closed.is_some() {
            let f = d.out.failure.clone();
            return (f, d.out.calls.clone(), None, events);
        }
        let over = match fixed {
            Some(o) => Some(o.clone()),
            None => pick_overrun(&mut d, sel),
        };
        if let Some(f) = d.out.failure.clone() {
            return (Some(f), d.out.calls.clone(), None, events);
        }
        let Some(over) = over else {
            events.push("no_overrun_possible_here");
            return (None, d.out.calls.clone(), None, events);
        };
        events.push(match &over {
            Overrun::ExtraLabel(..) => "overrun.N_plus_1_labels",
            Overrun::ExtraMember(..) => "overrun.17th_member",
            Overrun::Bind(a, b, _) if *a < cfg.cap && *b < cfg.cap => "overrun.17th_member_by_repeating_an_edge",
            _ => "overrun.id_at_or_above_capacity",
        });
        let res = exec_overrun(&mut *d.r.g, &over, cfg.n);
        let failure = match res {
            Err(_) => None,
            Ok(()) => Some(Failure {
                prop: "C07".into(),
                kind: "overrun.no_panic".into(),
                step: d.out.calls.len(),
                detail: format!("{over:?} exceeds a limit (capacity {}, N {}) but returned normally", cfg.cap, cfg.n),
            }),
        };
        // the graph must still be usable for memory-safe queries after the caught panic
        let _ = catch_unwind(AssertUnwindSafe(|| (d.r.g.keys(), d.r.g.debug())));
        (failure, d.out.calls.clone(), Some(over), events)
    }
}

impl Engine for AsanEngine {
    type Case = AsanCase;
    fn name(&self) -> &'static str {
        "asan-seq"
    }
    fn strategy(&self, _: Tier) -> BoxedStrategy<AsanCase> {
        (
            any::<u8>(),
            any::<u8>(),
            any::<bool>(),
            hist_strategy(60),
            proptest::collection::vec((any::<u8>(), any::<u16>(), any::<u16>(), any::<u16>()), 0..=120),
            (any::<u8>(), any::<u16>(), any::<u16>()),
        )
            .prop_map(|(n_sel, cap_sel, strict, hist, raw, overrun)| AsanCase { n_sel, cap_sel, strict, hist, raw, overrun })
            .boxed()
    }
    fn run(&self, case: &AsanCase) -> CaseReport {
        let cfg = asan_cfg(case.n_sel, case.cap_sel);
        let mut h = std::collections::hash_map::DefaultHasher::new();
        if case.strict {
            let hs = case.hist.clone();
            let (failure, calls, over, mut events) = Self::run_strict(cfg, None, Some(&hs), case.overrun, None);
            (cfg, &calls, &over).hash(&mut h);
            events.push("mode.in_domain_then_overrun");
            CaseReport {
                payload: failure.as_ref().map(|_| json!({"mode": "strict", "cfg": cfg, "calls": calls, "overrun": over, "rendered": format!("{} ; then {over:?}", render_calls(cfg, &calls))})),
                failure,
                nontrivial: over.is_some(),
                hash: h.finish(),
                events,
                counters: vec![("calls", calls.len() as u64 + 1)],
                evaluations: 1,
                ..Default::default()
            }
        } else {
            let (calls, panics) = run_raw(cfg, &case.raw);
            (cfg, &case.raw).hash(&mut h);
            CaseReport {
                nontrivial: panics >= 1,
                hash: h.finish(),
                events: vec!["mode.anything_goes"],
                counters: vec![("calls", calls), ("tolerated_panics", panics)],
                evaluations: 1,
                ..Default::default()
            }
        }
    }
    fn render(&self, case: &AsanCase) -> Value {
        let cfg = asan_cfg(case.n_sel, case.cap_sel);
        if case.strict {
            let hs = case.hist.clone();
            let (_, calls, over, _) = Self::run_strict(cfg, None, Some(&hs), case.overrun, None);
            let mut s = render_calls(cfg, &calls);
            if s.len() > 1000 {
                s = s.chars().take(1000).collect::<String>() + " …";
            }
            json!({"mode": "in-domain history, then one overrun that must panic", "history": s, "overrun": format!("{over:?}")})
        } else {
            json!({"mode": "anything goes (panics tolerated, sanitizer decides)", "config": cfg, "raw_ops": case.raw.iter().take(30).collect::<Vec<_>>(), "total_ops": case.raw.len()})
        }
    }
    fn replay(&self, payload: &Value) -> Option<Failure> {
        let cfg: Cfg = serde_json::from_value(payload["cfg"].clone()).ok()?;
        let calls: Vec<Call> = serde_json::from_value(payload["calls"].clone()).ok()?;
        let over: Option<Overrun> = serde_json::from_value(payload["overrun"].clone()).ok()?;
        match over {
            Some(o) => Self::run_strict(cfg, Some(&calls), None, (0, 0, 0), Some(&o)).0,
            None => {
                let mut o = NoPanic;
                crate::engine::run_concrete(cfg, &calls, &mut o, None).failure
            }
        }
    }
}


// ----------------------------------------------------------- byte-level (libFuzzer) layer

/// Decode a fuzzer input into a case (plain fixed layout; every byte string decodes).
pub fn decode(b: &[u8]) -> AsanCase {
    let g = |i: usize| b.get(i).copied().unwrap_or(0);
    let g16 = |i: usize| u16::from(g(i)) | (u16::from(g(i + 1)) << 8);
    let strict = g(2) & 1 == 1;
    let mut hist = HistSeed { n_sel: 0, cap_sel: 0, profile_sel: g(8), order_sel: g16(9), ops: vec![] };
    let mut raw = vec![];
    let mut p = 11;
    if strict {
        while p + 9 <= b.len() && hist.ops.len() < 60 {
            hist.ops.push((g(p), g16(p + 1), g16(p + 3), g16(p + 5), g16(p + 7)));
            p += 9;
        }
    } else {
        while p + 7 <= b.len() && raw.len() < 120 {
            raw.push((g(p), g16(p + 1), g16(p + 3), g16(p + 5)));
            p += 7;
        }
    }
    AsanCase { n_sel: g(0), cap_sel: g(1), strict, hist, raw, overrun: (g(3), g16(4), g16(6)) }
}

pub fn encode(c: &AsanCase) -> Vec<u8> {
    let mut b = vec![c.n_sel, c.cap_sel, u8::from(c.strict), c.overrun.0];
    b.extend_from_slice(&c.overrun.1.to_le_bytes());
    b.extend_from_slice(&c.overrun.2.to_le_bytes());
    b.push(c.hist.profile_sel);
    b.extend_from_slice(&c.hist.order_sel.to_le_bytes());
    if c.strict {
        for (k, a, x, y, z) in &c.hist.ops {
            b.push(*k);
            for v in [a, x, y, z] {
                b.extend_from_slice(&v.to_le_bytes());
            }
        }
    } else {
        for (k, a, x, y) in &c.raw {
            b.push(*k);
            for v in [a, x, y] {
                b.extend_from_slice(&v.to_le_bytes());
            }
        }
    }
    b
}

/// One libFuzzer iteration: nothing is shared between iterations (a fresh graph per case;
/// the crate has no global state besides the `log` facade, which stays disabled).
/// Returns the failure of the semantic oracle, if any.
pub fn fuzz_one(data: &[u8]) -> Option<Failure> {
    let case = decode(data);
    AsanEngine.run(&case).failure
}
