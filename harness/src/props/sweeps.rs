//! Dimension sweeps (bounded-exhaustive complement of the generated campaigns): every
//! value of one scalar dimension at a time — vertex capacity, vertex id, alpha index, one
//! byte value at one offset of a datum, datum length, number of groups x members per
//! group, number of edges on a vertex for every N, the character of a label — on a small
//! fixed scenario, judged by the owning property's ordinary concrete oracle. A defect
//! that hides behind one magic value of such a dimension (a bitmap word, a buffer size,
//! a counter width, a digit count) cannot be missed by chance here.

use crate::calls::{render_calls, Call, Cfg};
use crate::campaign::{CaseReport, Engine, Tier};
use crate::engine::{make_oracle, Driver, Epilogue, Failure};
use crate::interp::Runner;
use crate::lab::Lab;
use crate::props::digraph;
use crate::props::multi::{MultiConcrete, MultiEngine};
use crate::props::prefixes::PrefixEngine;
use crate::props::twin::{TwinEngine, TwinKind};
use proptest::prelude::*;
use proptest::strategy::BoxedStrategy;
use serde_json::{json, Value};

pub const DIMS: [&str; 16] = ["hash-twins", "capacity", "id", "alpha", "byte-value", "datum-length", "group-shape", "edges", "char", "vertex-count", "unread-count", "alias-pair", "repeat-count", "mirror-twins", "pairs", "big-image"];

pub struct Scenario {
    pub cfg: Cfg,
    pub calls: Vec<Call>,
}

fn pat(len: usize, salt: u8) -> Vec<u8> {
    (0..len).map(|i| (i as u8).wrapping_mul(29).wrapping_add(salt) ^ ((i >> 8) as u8) ^ 0xC3).collect()
}

fn bind(a: usize, b: usize, l: Lab) -> Call {
    Call::Bind { a, b, l, parsed: false }
}

/// The points of a dimension (quick / thorough).
pub fn points(dim: &str, thorough: bool, prop: &str) -> Vec<u64> {
    let pow2 = |v: &mut Vec<u64>, from: u32| {
        for j in from..64 {
            let p = 1u64 << j;
            v.extend([p - 1, p, p + 1]);
        }
        v.extend([u64::MAX - 1, u64::MAX]);
    };
    match dim {
        "capacity" => {
            let mut v: Vec<u64> = (1..=300).collect();
            v.extend([511, 512, 513, 1023, 1024, 1025, 2047, 2048, 2049, 4095, 4096, 4097]);
            if prop != "C09" {
                v.extend([65_535, 65_536, 65_537]);
                if thorough {
                    v.extend(301..=1100);
                }
            } else if !thorough {
                v.retain(|c| *c <= 1025);
            }
            v
        }
        "id" => (0..if thorough { 4200 } else { 1101 }).collect(),
        "alpha" => {
            let mut v: Vec<u64> = (0..=300).collect();
            pow2(&mut v, 9);
            let mut p = 1000u64;
            while p < u64::MAX / 10 {
                v.extend([p - 1, p, p + 1]);
                p *= 10;
            }
            if thorough {
                v.extend(301..=70_000);
            }
            v
        }
        "byte-value" => (0..12 * 256).collect(),
        // (C09: every cut point up to 2100 bytes; above that — up to 9000, so that the image passes
        // 4096 and 8192 bytes — the file size, the complete image and the last cut point only)
        "datum-length" => (0..=if thorough || prop == "C09" { 9000 } else { 2100 }).collect(),
        // x = copy << 10 | g << 5 | m; copy: the graph is replaced by a copy of itself (none, save+load,
        // clone, clone_from) before one more group is formed, filled, read and collected
        "group-shape" => (0..4u64).flat_map(|c| (0..=14u64).flat_map(move |g| (2..=16u64).map(move |m| c << 10 | g * 32 + m))).collect(),
        "edges" => (0..9u64).flat_map(|ns| (0..=N_TABLE[ns as usize] as u64).map(move |e| ns * 64 + e)).collect(),
        // k present vertices in a store of exactly k slots (every slot alive) — and of k+7 slots
        "vertex-count" => {
            // per-call full observation makes a point cost O(k^2): the heavier oracles sample the
            // counts around the word/byte boundaries in the quick tier and take every count in thorough
            let heavy = matches!(prop, "C03" | "C04" | "C08" | "C09" | "C10" | "C14" | "C19");
            let mut v: Vec<u64> = if heavy && !thorough {
                (1..=40).chain(60..=68).chain(124..=132).chain(250..=260).chain(if prop == "C09" { 0..0 } else { 508..516 }).collect()
            } else {
                (1..=if prop == "C09" { 300 } else if thorough { 1100 } else { 600 }).collect()
            };
            v.dedup();
            v.iter().flat_map(|k| [*k * 2, *k * 2 + 1]).collect()
        }
        // a group of m members, u of them holding unread data; put after/before binding; x = variant*1024 + m*32 + u
        "unread-count" => (0..4u64).flat_map(|var| (2..=16u64).flat_map(move |m| (0..=m).map(move |u| var * 1024 + m * 32 + u))).collect(),
        // two ids congruent modulo 2^k (k = 6..=12), 1..=3 multiples apart: x = k*64 + m*8 + which y
        "alias-pair" => (6..=12u64).flat_map(|k| (1..=3u64).flat_map(move |m| (0..2u64).map(move |w| k * 64 + m * 8 + w))).collect(),
        // the same mutation / the same query repeated R times between two looks at something else
        // (counters and generation stamps of 8 and 16 bits wrap here)
        "repeat-count" => vec![1, 2, 3, 127, 128, 129, 254, 255, 256, 257, 258, 511, 512, 513, 65_534, 65_535, 65_536, 65_537],
        // two vertices with the same edges bound in opposite order and the same data: x = variant bits
        // (1: both collected, reached through dangling edges; 2: ids 64 apart instead of adjacent; 4: data differ)
        "mirror-twins" => (0..8).collect(),
        // pairs of texts that collide under a common 32-bit hash function (twins.rs), as labels of one vertex and data of two
        "hash-twins" => (0..crate::twins::hash_twins().len() as u64).collect(),
        // every PAIR of dimensions at their boundary values on one composite scenario:
        // x = pair << 16 | i << 8 | j
        "pairs" => {
            // C09 enumerates every cut point of every image: pairs only in the thorough tier
            if prop == "C09" && !thorough {
                return vec![];
            }
            let prop = &tiered(prop, thorough);
            let mut v = vec![];
            let mut pair = 0u64;
            for a in 0..PDIMS {
                for b in a + 1..PDIMS {
                    for i in 0..pvalues(a, prop).len() as u64 {
                        for j in 0..pvalues(b, prop).len() as u64 {
                            v.push(u64::from(thorough) << 40 | pair << 16 | i << 8 | j);
                        }
                    }
                    pair += 1;
                }
            }
            v
        }
        // images above 64 MiB: a 1.5 M-slot store; 5 x 14 MiB of data; 70 x 1 MiB of data
        "big-image" => if prop == "C08" { vec![0, 1, 2] } else { vec![] },
        "char" => {
            let step = if thorough { 61 } else { 997 };
            let text_parsed = matches!(prop, "C18" | "C20" | "C14");
            (0x21u32..0x300)
                .chain((0x300u32..0x11_0000).step_by(step))
                .filter_map(char::from_u32)
                .filter(|c| if text_parsed { c.is_alphanumeric() && *c != 'α' && *c != 'ν' } else if prop == "C03" || prop == "C04" { !c.is_whitespace() && !c.is_control() } else { *c != ' ' })
                .map(|c| c as u64)
                .collect()
        }
        _ => vec![],
    }
}

const N_TABLE: [usize; 9] = [1, 2, 3, 4, 8, 15, 16, 17, 32];

// ---- the composite scenario of the pairwise sweep
const PDIMS: usize = 9;
const PNAMES: [&str; PDIMS] = ["capacity", "id", "alpha", "datum-length", "byte", "edges", "char", "group-size", "unread"];

/// boundary values of one dimension of the composite scenario
fn pvalues(d: usize, prop: &str) -> Vec<u64> {
    let (prop, thorough) = match prop.strip_suffix("+") {
        Some(p) => (p, true),
        None => (prop, false),
    };
    let small = prop == "C09"; // every cut point of every image: small images only
    match d {
        0 => {
            let v: Vec<u64> = vec![1, 2, 3, 4, 8, 16, 17, 31, 32, 33, 63, 64, 65, 127, 128, 129, 255, 256, 257, 300, 511, 512, 513, 1023, 1024, 1025, 1524, 1525, 4096, 4097, 16_384, 65_535, 65_536, 65_537];
            // the quick tier keeps one capacity above 4097
            if small {
                v.into_iter().filter(|c| *c <= 64).collect()
            } else if thorough {
                v
            } else {
                // (the two oracles that observe the whole graph several times per call stop at 4097)
                let mut v = vec![1, 2, 3, 16, 17, 64, 255, 256, 257, 1024, 1525, 4097];
                if !matches!(prop, "C13" | "C19") {
                    v.push(65_537);
                }
                v
            }
        }
        1 => vec![0, 1, 2, 7, 15, 16, 31, 32, 63, 64, 127, 128, 255, 256, 257, 511, 512, 1023, 1024, 4095, 4096, 65_535],
        2 => vec![0, 1, 9, 10, 99, 100, 127, 128, 255, 256, 65_535, 65_536, 1 << 31, (1 << 32) - 1, 1 << 32, 1 << 53, 1 << 63, u64::MAX],
        3 => {
            let v: Vec<u64> = vec![0, 1, 7, 8, 9, 15, 16, 17, 31, 32, 33, 63, 64, 65, 255, 256, 257, 1364, 1365, 2730, 4095, 4096, 4097, 65_535, 65_536, 65_537];
            if small { v.into_iter().filter(|c| *c <= 257).collect() } else if thorough { v } else { v.into_iter().filter(|c| *c <= 4097 || *c == 65_536).collect() }
        }
        4 => vec![0, 1, 0x20, 0x2D, 0x7F, 0x80, 0xFF],
        5 => vec![0, 1, 2, 3, 7, 8, 9, 15, 16, 17, 31, 32],
        6 => {
            let text_parsed = matches!(prop, "C18" | "C20" | "C14");
            let plain = matches!(prop, "C03" | "C04");
            ['q', 'A', '0', '-', '_', 'é', 'ρ', 'Р', '中', '𝜑', '\u{10430}', '\u{a0}', '\u{3000}', '\u{feff}', '\u{301}']
                .into_iter()
                .filter(|c| if text_parsed { c.is_alphanumeric() } else if plain { !c.is_whitespace() && !c.is_control() } else { true })
                .map(|c| c as u64)
                .collect()
        }
        7 => vec![2, 3, 8, 15, 16],
        _ => vec![0, 1, 2, 15, 16],
    }
}

/// the value lists of the pairwise sweep depend on the tier: "C08" (quick) / "C08+" (thorough)
fn tiered(prop: &str, thorough: bool) -> String {
    if thorough { format!("{prop}+") } else { prop.to_string() }
}

/// which two dimensions, and which values, a point of the pairwise sweep stands for
fn describe_pair(prop: &str, x: u64) -> String {
    let prop = &tiered(prop, x >> 40 & 1 == 1);
    let (pair, i, j) = ((x >> 16 & 0xFF) as usize, ((x >> 8) & 0xFF) as usize, (x & 0xFF) as usize);
    let mut k = 0;
    for a in 0..PDIMS {
        for b in a + 1..PDIMS {
            if k == pair {
                return format!("{} = {:?} x {} = {:?}", PNAMES[a], pvalues(a, prop).get(i), PNAMES[b], pvalues(b, prop).get(j));
            }
            k += 1;
        }
    }
    String::new()
}

fn composite(prop: &str, x: u64) -> Option<Scenario> {
    let prop = &tiered(prop, x >> 40 & 1 == 1);
    let (pair, i, j) = ((x >> 16 & 0xFF) as usize, ((x >> 8) & 0xFF) as usize, (x & 0xFF) as usize);
    // defaults, then the two swept dimensions
    let mut p: [u64; PDIMS] = [40, 5, 7, 9, 0xA7, 2, 'q' as u64, 3, 1];
    let mut k = 0;
    'find: for a in 0..PDIMS {
        for b in a + 1..PDIMS {
            if k == pair {
                p[a] = *pvalues(a, prop).get(i)?;
                p[b] = *pvalues(b, prop).get(j)?;
                break 'find;
            }
            k += 1;
        }
    }
    if prop.starts_with("C09") {
        p[0] = 20;
    }
    let [cap, id, alpha, len, byte, e, ch, m, u] = p;
    let (cap, e, m, u) = (cap as usize, e as usize, m as usize, (u as usize).min(m as usize));
    let ch = char::from_u32(ch as u32)?;
    let n = *N_TABLE.iter().find(|n| **n >= e.max(2))?;
    let cfg = Cfg { n, cap };
    let kids = e.clamp(1, 15);
    let total = (1 + kids).max(m).min(cap);
    let hub = id as usize % cap;
    let v: Vec<usize> = (0..total).map(|t| (hub + t) % cap).collect();
    let mut calls: Vec<Call> = v.iter().map(|x| Call::Add(*x)).collect();
    if total >= 2 {
        for t in 0..e {
            let l = match t {
                0 => Lab::Alpha(alpha),
                1 => Lab::Greek(ch),
                2 => Lab::Str(format!("a{ch}{ch}{ch}")),
                _ => Lab::Str(format!("k{t}")),
            };
            calls.push(bind(hub, v[1 + t % kids.min(total - 1)], l));
        }
        for t in (1 + kids).min(total)..total {
            calls.push(bind(v[t - 1], v[t], Lab::Alpha(alpha ^ 1)));
        }
        let mut d = pat(len as usize, 41);
        if !d.is_empty() {
            let mid = d.len() / 2;
            d[mid] = byte as u8;
        }
        calls.push(Call::Put(v[1], d));
    }
    calls.push(Call::Put(hub, vec![byte as u8]));
    for t in 0..u.min(total) {
        calls.push(Call::Put(v[total - 1 - t], pat(1 + t, t as u8)));
    }
    calls.extend([Call::Kids(hub), Call::Kid(hub, Lab::Alpha(alpha)), Call::Kid(hub, Lab::Alpha(alpha ^ 256)), Call::Kid(hub, Lab::Greek(ch)), Call::Slice(hub)]);
    feature_tail(cfg, &mut calls);
    Some(Scenario { cfg, calls })
}

/// The scenario of one point.
pub fn build(dim: &str, x: u64) -> Option<Scenario> {
    build_for(dim, x, false)
}

/// `drain`: for the checks of the collector (C01..C05) the alias-pair scenario goes on to
/// collect the group and to re-create the two aliasing ids
pub fn build_for(dim: &str, x: u64, drain: bool) -> Option<Scenario> {
    let mut calls = vec![];
    let cfg;
    match dim {
        "capacity" => {
            let c = x as usize;
            cfg = Cfg { n: 3, cap: c };
            let mut ids = vec![0usize, c - 1, c / 2];
            ids.dedup();
            if ids.len() == 3 && (ids[2] == ids[0] || ids[2] == ids[1]) {
                ids.pop();
            }
            for v in &ids {
                calls.push(Call::Add(*v));
            }
            if ids.len() >= 2 {
                calls.push(bind(0, c - 1, Lab::Str("foo".into())));
                calls.push(Call::Put(c - 1, pat(9, 1)));
            }
            if ids.len() == 3 {
                calls.push(bind(c - 1, c / 2, Lab::Alpha(1)));
                calls.push(Call::Put(c / 2, pat(300, 2)));
            }
            calls.push(Call::Put(0, vec![1, 2]));
            calls.push(Call::Kids(0));
            if ids.len() == 3 && c > 3 {
                calls.push(Call::NextIdAdd);
            }
        }
        "id" => {
            let cap = 4201;
            let v = x as usize;
            let mut w = (v * 7 + 3) % cap;
            if w == v {
                w = (v + 1) % cap;
            }
            cfg = Cfg { n: 2, cap };
            calls.extend([
                Call::Add(v),
                Call::Add(w),
                bind(v, w, Lab::Str("foo".into())),
                bind(w, v, Lab::Alpha(1)),
                Call::Put(v, pat(10, 3)),
                Call::Put(w, vec![7]),
                Call::Kid(v, Lab::Str("foo".into())),
                Call::Kids(w),
            ]);
        }
        "alpha" => {
            cfg = Cfg { n: 4, cap: 6 };
            let k = x;
            let k2 = if k < u64::MAX { k + 1 } else { k - 1 };
            let k3 = k ^ 0x100;
            for v in 0..4 {
                calls.push(Call::Add(v));
            }
            calls.push(bind(0, 1, Lab::Alpha(k)));
            calls.push(bind(0, 2, Lab::Alpha(k2)));
            if k3 != k2 {
                calls.push(bind(0, 3, Lab::Alpha(k3)));
            }
            calls.push(Call::Put(1, pat(3, 4)));
            for p in [k, k ^ 1, k.wrapping_add(256), k >> 8, k & 0xFF, k.wrapping_add(1 << 32), k2, k3] {
                calls.push(Call::Kid(0, Lab::Alpha(p)));
            }
            calls.push(Call::Kids(0));
        }
        "byte-value" => {
            cfg = Cfg { n: 2, cap: 4 };
            let (p, b) = ((x / 256) as usize, (x % 256) as u8);
            let mut d = pat(12, 5);
            d[p] = b;
            let mut s = pat(p + 1, 6);
            s[p] = b;
            calls.extend([Call::Add(0), Call::Add(1), bind(0, 1, Lab::Alpha(0)), Call::Put(0, d), Call::Put(1, s)]);
        }
        "datum-length" => {
            cfg = Cfg { n: 2, cap: 4 };
            calls.extend([Call::Add(0), Call::Add(1), bind(0, 1, Lab::Alpha(0)), Call::Put(1, pat(x as usize, 7)), Call::Put(0, vec![7])]);
        }
        "group-shape" => {
            let copy = x >> 10;
            let x = x & 1023;
            let (g, m) = ((x / 32) as usize, (x % 32) as usize);
            let cap = g * m + 9;
            cfg = Cfg { n: 2, cap };
            for i in 0..g {
                let base = i * m;
                for v in base..base + m {
                    calls.push(Call::Add(v));
                }
                for v in base..base + m - 1 {
                    calls.push(bind(v, v + 1, Lab::Alpha(0)));
                }
                calls.push(Call::Put(base + m - 1, pat(9 + i, i as u8)));
                if i % 2 == 1 {
                    calls.push(Call::Put(base, vec![i as u8]));
                }
            }
            calls.push(Call::Add(cap - 1));
            calls.push(Call::Put(cap - 1, pat(4, 9)));
            match copy {
                1 => calls.push(Call::SaveLoad),
                2 => calls.push(Call::Clone),
                3 => calls.push(Call::CloneInto { cap, ids: vec![cap - 2, cap - 3] }),
                _ => {}
            }
            // one more group, when the limit allows it (validity is judged on the model): formed,
            // filled, read, collected
            let (p, q) = (g * m, g * m + 1);
            calls.extend([Call::Add(p), Call::Add(q), bind(p, q, Lab::Greek('z')), Call::Put(q, pat(3, 77)), Call::Data(q)]);
            calls.push(Call::NextIdAdd);
        }
        "edges" => {
            let n = N_TABLE[(x / 64) as usize];
            let e = (x % 64) as usize;
            let kids = e.clamp(1, 15);
            cfg = Cfg { n, cap: kids + 3 };
            for v in 0..=kids {
                calls.push(Call::Add(v));
            }
            for k in 0..e {
                let l = match k % 3 {
                    0 => Lab::Alpha(k as u64),
                    1 => Lab::Str(format!("k{k}")),
                    _ => Lab::Greek(char::from_u32(0x430 + k as u32).unwrap()),
                };
                calls.push(bind(0, 1 + k % kids, l));
            }
            calls.push(Call::Put(kids, pat(9, 11)));
            calls.push(Call::Kids(0));
            calls.push(Call::Slice(0));
        }
        "vertex-count" => {
            let k = (x / 2) as usize;
            let cap = if x % 2 == 0 { k } else { k + 7 };
            cfg = Cfg { n: 2, cap };
            for v in 0..k {
                calls.push(Call::Add(cap - 1 - v));
            }
            // the last one holds a heap datum, the first one an inline datum; no groups needed
            calls.push(Call::Put(cap - k, pat(11, 21)));
            calls.push(Call::Put(cap - 1, vec![5]));
            if k >= 2 {
                calls.push(bind(cap - 1, cap - k, Lab::Str("last".into())));
            }
        }
        "unread-count" => {
            let (var, m, u) = ((x / 1024) as usize, ((x % 1024) / 32) as usize, (x % 32) as usize);
            cfg = Cfg { n: 2, cap: m + 3 };
            for v in 0..m {
                calls.push(Call::Add(v));
            }
            // var bit 0: data before binding; bit 1: star instead of chain is impossible with N = 2, so reverse the edge direction
            if var & 1 == 1 {
                for v in 0..u {
                    calls.push(Call::Put(m - 1 - v, pat(1 + v, v as u8)));
                }
            }
            for v in 0..m - 1 {
                calls.push(if var & 2 == 2 { bind(v + 1, v, Lab::Alpha(0)) } else { bind(v, v + 1, Lab::Alpha(0)) });
            }
            if var & 1 == 0 {
                for v in 0..u {
                    calls.push(Call::Put(m - 1 - v, pat(1 + v, v as u8)));
                }
            }
            // read them in put order: the group must live until the last one is read
            for v in 0..u {
                calls.push(Call::Data(m - 1 - v));
            }
        }
        "alias-pair" => {
            let (k, m, w) = (x / 64, (x % 64) / 8, x % 8);
            let step = (1usize << k) * m as usize;
            let y = if w == 0 { 4 } else { (1usize << k) - 3 };
            let (r, xx, z) = (1usize, y + step, y + 1);
            cfg = Cfg { n: 2, cap: xx + 3 };
            let s = |t: &str| Lab::Str(t.into());
            calls.extend([
                Call::Add(r), Call::Add(xx), Call::Add(y), Call::Add(z),
                bind(r, xx, s("aa")), bind(r, y, s("bb")), bind(y, z, s("cc")), bind(xx, z, s("dd")),
                Call::Put(z, pat(9, 31)), Call::Put(xx, vec![1]),
                Call::Kids(r), Call::Kid(xx, s("dd")), Call::Kid(y, s("cc")),
            ]);
            if drain {
                calls.extend([Call::Data(xx), Call::Data(z), Call::Add(y), Call::Add(xx), Call::Kids(y), Call::Kids(xx), Call::Add(z), Call::Kids(z)]);
            }
        }
        "hash-twins" => {
            let t = crate::twins::hash_twins().get(x as usize)?;
            cfg = Cfg { n: 3, cap: 6 };
            let (la, lb) = (Lab::Str(t.a.clone()), Lab::Str(t.b.clone()));
            for v in 0..5 {
                calls.push(Call::Add(v));
            }
            calls.extend([
                bind(0, 1, la.clone()), Call::Kid(0, la.clone()), Call::Kid(0, lb.clone()),
                bind(0, 2, lb.clone()), Call::Kid(0, lb.clone()), Call::Kid(0, la.clone()), Call::Kids(0),
                Call::Kid(3, la.clone()), Call::Kid(3, lb.clone()),
                Call::Put(1, t.a.as_bytes().to_vec()), Call::Put(2, t.b.as_bytes().to_vec()),
                Call::Put(3, [t.a.as_bytes(), b"-tail"].concat()), Call::Put(4, [t.b.as_bytes(), b"-tail"].concat()),
                bind(3, 4, la), bind(4, 3, lb.clone()), Call::Kid(4, lb), Call::Kids(3), Call::Kids(4),
            ]);
            if drain {
                calls.extend([Call::Data(3), Call::Data(4), Call::Data(3)]);
            }
        }
        "repeat-count" => {
            let r = x as usize;
            cfg = Cfg { n: 2, cap: 10 };
            let s = |t: &str| Lab::Str(t.into());
            for v in 0..7 {
                calls.push(Call::Add(v));
            }
            calls.extend([
                bind(0, 1, s("aa")), bind(1, 2, s("bb")), bind(5, 6, s("cc")),
                Call::Put(2, pat(9, 51)), Call::Put(6, vec![6]),
                Call::Kid(0, s("aa")), Call::Kids(0),
            ]);
            // R edge changes: R - 1 times the same bind in the other component, then the edge
            // that was looked up is pointed elsewhere
            for _ in 1..r {
                calls.push(bind(5, 6, s("cc")));
            }
            calls.extend([bind(0, 3, s("aa")), Call::Kid(0, s("aa")), Call::Kids(0), Call::Kid(5, s("cc"))]);
            // R overwriting puts and R reads of one datum, then a look at the other one
            if r <= 600 {
                for k in 0..r {
                    calls.push(Call::Put(6, vec![k as u8; 1 + k % 3]));
                }
                for _ in 0..r {
                    calls.push(Call::Kids(5));
                }
            }
            calls.push(Call::Kid(0, s("aa")));
        }
        "mirror-twins" => {
            let (dead, far, differ) = (x & 1 == 1, x & 2 == 2, x & 4 == 4);
            let (a, b) = (10usize, if far { 74 } else { 11 });
            cfg = Cfg { n: 2, cap: 80 };
            for v in [0, 1, a, b, 20, 21] {
                calls.push(Call::Add(v));
            }
            calls.extend([
                bind(0, 1, Lab::Greek('g')), Call::Put(1, pat(9, 61)),
                bind(a, 20, Lab::Alpha(0)), bind(a, 21, Lab::Alpha(1)),
                bind(b, 21, Lab::Alpha(1)), bind(b, 20, Lab::Alpha(0)),
                Call::Put(a, pat(12, 62)), Call::Put(b, if differ { pat(12, 63) } else { pat(12, 62) }),
                Call::Put(20, vec![2]),
            ]);
            // the root reaches both twins from another group
            calls.extend([bind(0, a, Lab::Str("le".into())), bind(1, b, Lab::Str("ri".into()))]);
            calls.extend([Call::Data(a), Call::Data(b), Call::Kids(a), Call::Kids(b)]);
            if dead {
                calls.push(Call::Data(20)); // the twins' group is collected; 0 and 1 keep dangling edges
                calls.extend([Call::SliceAny(0), Call::SliceAny(1)]);
            } else {
                calls.extend([Call::Slice(0), Call::Slice(1)]);
            }
        }
        "big-image" => match x {
            0 => {
                cfg = Cfg { n: 1, cap: 1_500_000 };
                calls.extend([Call::Add(0), Call::Add(1_499_999), bind(0, 1_499_999, Lab::Alpha(0)), Call::Put(1_499_999, pat(9, 1))]);
            }
            1 => {
                cfg = Cfg { n: 2, cap: 8 };
                for v in 0..5 {
                    calls.push(Call::Add(v));
                    calls.push(Call::Put(v, pat(14 << 20, v as u8)));
                }
                calls.push(bind(0, 1, Lab::Alpha(0)));
            }
            _ => {
                cfg = Cfg { n: 2, cap: 80 };
                for v in 0..70 {
                    calls.push(Call::Add(v));
                    calls.push(Call::Put(v, pat((1 << 20) + v, v as u8)));
                }
                calls.push(bind(0, 1, Lab::Alpha(0)));
            }
        },
        "char" => {
            let c = char::from_u32(x as u32)?;
            cfg = Cfg { n: 3, cap: 5 };
            for v in 0..4 {
                calls.push(Call::Add(v));
            }
            calls.push(bind(0, 1, Lab::Greek(c)));
            calls.push(bind(0, 2, Lab::Str(format!("{c}a"))));
            calls.push(bind(0, 3, Lab::Str(format!("a{c}{c}{c}{c}{c}{c}{c}"))));
            calls.push(Call::Put(3, pat(2, 12)));
            calls.push(Call::Kid(0, Lab::Greek(c)));
            if let Some(d) = char::from_u32(x as u32 ^ 0x100) {
                calls.push(Call::Kid(0, Lab::Greek(d)));
            }
            calls.push(Call::Kids(0));
        }
        _ => return None,
    }
    if matches!(dim, "capacity" | "id" | "alpha" | "group-shape" | "edges" | "char" | "alias-pair" | "mirror-twins") && !(dim == "alias-pair" && drain) {
        feature_tail(cfg, &mut calls);
    }
    Some(Scenario { cfg, calls })
}

/// Every scenario with room for them also carries the small oddities that tend to hide a
/// second condition: an isolated vertex with an EMPTY unread datum, one whose empty datum
/// was read, and a grouped leaf with an empty unread datum.
fn feature_tail(cfg: Cfg, calls: &mut Vec<Call>) {
    let mut r = Runner::new(cfg);
    for c in calls.iter() {
        if r.valid(c) {
            r.step(c);
        }
    }
    let free = r.m.absent_ids();
    if free.len() < 6 {
        return;
    }
    // the highest absent ids, so that what the allocator hands out below stays as it was
    let e: Vec<usize> = free.iter().rev().take(4).copied().collect();
    let tail = [
        Call::Add(e[0]), Call::Put(e[0], vec![]),
        Call::Add(e[1]), Call::Put(e[1], vec![]), Call::Data(e[1]),
        Call::Add(e[2]), Call::Add(e[3]), bind(e[2], e[3], Lab::Str("tail".into())), Call::Put(e[3], vec![]),
    ];
    for c in tail {
        if r.valid(&c) {
            r.step(&c);
            calls.push(c);
        }
    }
}

/// the calls followed by the drain epilogue as explicit calls (for checkers that take a
/// plain call list)
fn with_drain(s: &Scenario) -> Vec<Call> {
    let mut r = Runner::new(s.cfg);
    let mut out = vec![];
    for c in &s.calls {
        if !r.valid(c) {
            continue;
        }
        r.step(c);
        out.push(c.clone());
    }
    let mut ep = Epilogue::new(&r.m, 0);
    while let Some((c, _)) = ep.next(&r.m) {
        if !r.valid(&c) {
            continue;
        }
        r.step(&c);
        out.push(c);
    }
    out
}

fn queries_of(calls: &[Call]) -> Vec<Call> {
    let mut q: Vec<Call> = calls.iter().filter(|c| matches!(c, Call::Kid(..) | Call::Kids(_) | Call::Slice(_) | Call::SliceAny(_) | Call::SliceSome(..))).cloned().collect();
    q.dedup();
    q.truncate(40);
    q
}

fn script_of(cfg: Cfg, calls: &[Call]) -> Option<(String, usize, Vec<Call>)> {
    let mut text = String::new();
    let mut direct = vec![];
    // what a script cannot say is left out; what is left is judged again on the model (without
    // the reads, a group that would have been collected is still alive and may make a later
    // bind overrun a limit)
    let mut r = Runner::new(cfg);
    for c in calls {
        let piece = match c {
            Call::Add(v) => format!("ADD(ν{v});\n"),
            Call::Bind { a, b, l, .. } => {
                if !l.parse_roundtrips() {
                    return None;
                }
                format!("BIND(ν{a}, ν{b}, {});\n", l.text())
            }
            // the script grammar has no empty datum: such a put is left out on both sides
            Call::Put(_, d) if d.is_empty() => continue,
            Call::Put(v, d) => format!("PUT(ν{v}, {});\n", crate::calls::hexs(d)),
            _ => continue,
        };
        if !r.valid(c) {
            continue;
        }
        r.step(c);
        text.push_str(&piece);
        direct.push(c.clone());
    }
    Some((text, direct.len(), direct))
}

/// One point under one property's concrete oracle.
pub fn check_point(prop: &'static str, dim: &str, x: u64) -> Option<Failure> {
    judge_point(prop, dim, x).flatten()
}

/// None = the point cannot be expressed for this property (skipped and counted)
pub fn judge_point(prop: &'static str, dim: &str, x: u64) -> Option<Option<Failure>> {
    let mut s = if dim == "pairs" { composite(prop, x)? } else { build_for(dim, x, matches!(prop, "C01" | "C02" | "C03" | "C04" | "C05" | "C06"))? };
    if dim == "big-image" {
        return Some(big_image(&s, x));
    }
    // calls outside the limits (judged on the model) are dropped, never executed
    {
        let mut r = Runner::new(s.cfg);
        let mut kept = vec![];
        for c in &s.calls {
            if r.valid(c) {
                r.step(c);
                kept.push(c.clone());
            }
        }
        s.calls = kept;
    }
    let f = match prop {
        "C01" | "C02" | "C03" | "C04" | "C05" | "C06" => {
            let mut o = make_oracle(prop);
            let mut d = Driver::new(s.cfg, &mut *o);
            let mut go = true;
            for c in &s.calls {
                if !d.step(c) {
                    go = false;
                    break;
                }
            }
            if go {
                d.epilogue(x as u16);
            }
            let loud = d.out.failure.clone();
            if loud.is_none() && prop == "C03" {
                // once more with nothing asked between the scenario's own queries
                let mut q = crate::engine::C03::quiet();
                crate::engine::run_concrete(s.cfg, &s.calls, &mut q, None).failure
            } else {
                loud
            }
        }
        "C07" => {
            // executed for the sanitizer's sake: the scenario, every query, the copies
            let calls = with_drain(&s);
            let mut r = Runner::new(s.cfg);
            for (i, c) in calls.iter().enumerate() {
                r.step(c);
                if i + 1 == s.calls.len() {
                    let _ = crate::obs::try_observe(&*r.g, crate::obs::ObsLevel::FULL);
                    r.step(&Call::Clone);
                    r.step(&Call::SaveLoad);
                }
            }
            None
        }
        // the scenario builds the graph; its queries are asked again of both copies after the split
        "C08" => TwinEngine { kind: TwinKind::SaveLoad }.execute_public(s.cfg, &s.calls, x as u16, &queries_of(&s.calls)).0,
        "C10" => TwinEngine { kind: TwinKind::Clone }.execute_public(s.cfg, &s.calls, x as u16, &queries_of(&s.calls)).0,
        "C14" => {
            let (text, commands, direct) = script_of(s.cfg, &s.calls)?;
            TwinEngine { kind: TwinKind::Script { text, commands, prefix: vec![] } }.execute_public(s.cfg, &direct, x as u16, &[]).0
        }
        "C09" => {
            let r = digraph::replay_calls(s.cfg, &s.calls)?;
            let light = dim == "datum-length" && x > 2100;
            PrefixEngine { all_prefixes: true }.check(s.cfg, &r, if light { Some(usize::MAX) } else { None }).0
        }
        "C13" => {
            let r = digraph::replay_calls(s.cfg, &s.calls)?;
            let mut st = digraph::Stats::default();
            // all edges, then eight half-accepting predicates
            // (rate % 3: 0 = every edge accepted, 2 = none, 1 = about half, by a hash of seed and edge)
            digraph::check_slices(&r, 0, 0, &mut st)
                .or_else(|| digraph::check_slices(&r, 0, 2, &mut st))
                .or_else(|| (0..8u16).find_map(|k| digraph::check_slices(&r, (x as u16).wrapping_mul(8).wrapping_add(k), 1, &mut st)))
        }
        "C18" => {
            let r = digraph::replay_calls(s.cfg, &s.calls)?;
            digraph::check_exports(&r, x as u8, &mut digraph::Stats::default())
        }
        "C20" => {
            let r = digraph::replay_calls(s.cfg, &s.calls)?;
            let first = digraph::check_printers(&r, &mut digraph::Stats::default());
            if first.is_none() && dim == "repeat-count" {
                // the answer to a query does not depend on how often OTHER queries were asked in
                // between: inspect(0), then exactly R - 1 times inspect() of the other component,
                // then inspect(0) again — the R-th call after the first; the same for v_print and Debug
                let before = (r.g.inspect(0).ok(), r.g.v_print(1).ok(), r.g.debug());
                for _ in 1..x {
                    let _ = r.g.inspect(5);
                }
                let after_inspect = r.g.inspect(0).ok();
                for _ in 1..x {
                    let _ = r.g.v_print(5);
                }
                let after = (after_inspect, r.g.v_print(1).ok(), r.g.debug());
                if before != after {
                    Some(Failure { prop: "C20".into(), kind: "print.depends_on_earlier_queries".into(), step: x as usize, detail: format!("inspect(0) / v_print(1) / Debug before {:?} and after {} other queries {:?}", before, x - 1, after) })
                } else {
                    digraph::check_printers(&r, &mut digraph::Stats::default())
                }
            } else {
                first
            }
        }
        "C19" => {
            let calls = with_drain(&s);
            let b = Cfg { n: match s.cfg.n { 0..=11 => s.cfg.n + 5, 12..=16 => 17, _ => 32 }, cap: s.cfg.cap * 2 + 1 };
            MultiEngine::check(&MultiConcrete { a: s.cfg, b, calls, xproc: false }).0
        }
        _ => None,
    };
    Some(f.map(|mut f| {
        f.prop = prop.into();
        let what = if dim == "pairs" { format!("{x} ({})", describe_pair(prop, x)) } else { x.to_string() };
        f.detail = format!("sweep {dim} = {what}: {}", f.detail.chars().take(700).collect::<String>());
        f
    }))
}

/// Images above 64 MiB: only what save+load must preserve is looked at (keys, kids, data
/// bytes) — printing such a graph is not part of the check.
fn big_image(s: &Scenario, x: u64) -> Option<Failure> {
    use std::panic::{catch_unwind, AssertUnwindSafe};
    let fail = |kind: &str, d: String| Some(Failure { prop: "C08".into(), kind: kind.into(), step: x as usize, detail: format!("sweep big-image = {x} ({}): {d}", ["1.5 M slots", "5 x 14 MiB of data", "70 x 1 MiB of data"][x as usize % 3]) });
    let mut g = crate::graph::new_graph(s.cfg.n, s.cfg.cap);
    for c in &s.calls {
        match c {
            Call::Add(v) => g.add(*v),
            Call::Bind { a, b, l, .. } => g.bind(*a, *b, l.direct()),
            Call::Put(v, d) => g.put(*v, &crate::graph::hex_of(d)),
            _ => {}
        }
    }
    crate::campaign::touch();
    let p = crate::interp::tmp_file("big");
    let res = catch_unwind(AssertUnwindSafe(|| g.save(&p).and_then(|_| g.load_same(&p))));
    let _ = std::fs::remove_file(&p);
    crate::campaign::touch();
    match res {
        Err(e) => fail("twin.panic", format!("save/load panicked: {}", crate::interp::panic_text(e))),
        Ok(Err(e)) => fail("twin.error", format!("save/load failed: {e:#}")),
        Ok(Ok(mut g2)) => {
            if g.keys() != g2.keys() {
                return fail("twin.keys_differ", format!("{} keys before, {} after", g.keys().len(), g2.keys().len()));
            }
            for v in g.keys() {
                if g.kids(v) != g2.kids(v) {
                    return fail("twin.query_differs", format!("kids({v}) differ"));
                }
                let (a, b) = (g.data(v).map(|h| h.to_vec()), g2.data(v).map(|h| h.to_vec()));
                if a != b {
                    return fail("twin.result_differs", format!("data({v}): {:?} bytes before, {:?} after", a.map(|x| x.len()), b.map(|x| x.len())));
                }
            }
            None
        }
    }
}

pub fn dims_for(prop: &str) -> Vec<&'static str> {
    DIMS.iter()
        .copied()
        .filter(|d| match (prop, *d) {
            // exports are defined for labels that need no escaping; the length sweep of C08/C18 exists already
            ("C08" | "C18", "datum-length") => false,
            // every cut point of every image: keep the images small
            ("C09", "id" | "alias-pair") => false,
            (p, "big-image") => p == "C08",
            _ => true,
        })
        .collect()
}

pub struct SweepEngine {
    pub prop: &'static str,
    pub shard: u64,
    pub of: u64,
    pub thorough: bool,
}

impl Engine for SweepEngine {
    type Case = u8;
    fn name(&self) -> &'static str {
        "dimension-sweeps"
    }
    fn strategy(&self, _: Tier) -> BoxedStrategy<u8> {
        Just(0u8).boxed()
    }
    fn run(&self, _: &u8) -> CaseReport {
        let mut evals = 0u64;
        let mut subs = vec![];
        let mut failure = None;
        let mut payload = None;
        let mut i = 0u64;
        let mut skipped = 0u64;
        'all: for (di, dim) in dims_for(self.prop).into_iter().enumerate() {
            for x in points(dim, self.thorough, self.prop) {
                i += 1;
                if i % self.of != self.shard {
                    continue;
                }
                crate::campaign::touch();
                match judge_point(self.prop, dim, x) {
                    None => {
                        skipped += 1;
                        continue;
                    }
                    Some(Some(f)) => {
                        evals += 1;
                        payload = Some(json!({"dim": dim, "value": x}));
                        failure = Some(f);
                        break 'all;
                    }
                    Some(None) => evals += 1,
                }
                subs.push(x ^ ((di as u64 + 1) << 56) ^ 0x5EE9_0000_0000);
            }
        }
        CaseReport {
            payload,
            failure,
            evaluations: evals,
            sub_hashes: subs,
            counters: vec![("points_not_expressible_for_this_property_skipped", skipped)],
            events: vec!["bounded-exhaustive: every value of each swept dimension (capacity, id, alpha index, byte value x offset, datum length, groups x members, edges x N, label character) on a fixed small scenario"],
            ..Default::default()
        }
    }
    fn render(&self, _: &u8) -> Value {
        let dims: Vec<Value> = dims_for(self.prop)
            .into_iter()
            .filter(|d| !points(d, self.thorough, self.prop).is_empty())
            .map(|d| {
                let p = points(d, self.thorough, self.prop);
                let sample = if d == "pairs" { composite(self.prop, p[p.len() / 2]) } else { build(d, p[p.len() / 2]) }.map(|s| render_calls(s.cfg, &s.calls)).unwrap_or_default();
                json!({"dimension": d, "points": p.len(), "sample_point": p[p.len() / 2], "sample_scenario": sample.chars().take(400).collect::<String>()})
            })
            .collect();
        json!({"dimensions": dims, "this_worker": format!("every {}th point", self.of)})
    }
    fn replay(&self, payload: &Value) -> Option<Failure> {
        check_point(self.prop, payload["dim"].as_str()?, payload["value"].as_u64()?)
    }
}
