//! Sub-campaign `echo-sweeps`: the answer to a question about one graph (or value) does not
//! depend on what else happened on the thread, on how often other things were asked, or on
//! whether the question was asked before.
//!
//! Every listed property makes the answers of the API a function of the graph's own history.
//! Three metamorphic relations follow, each bounded-exhaustive over a table of *looks* (one per
//! API the property is about) and a list of repeat counts R around the places where 8-, 16- and
//! 17-bit counters and stamps wrap:
//!
//! * **foreign**: `a = look(target)`; exactly R − 1 times the same look at ANOTHER graph / text /
//!   component; `b = look(target)` — the R-th call after the first. `a == b`.
//! * **stale**: two graphs g, g′ are built by the same calls; everything is looked at on g (never
//!   on g′); the same R mutations are applied to both; every look must now agree on g and g′ —
//!   an earlier look does not change a later answer (memo tables guarded by counters that wrap).
//! * **fault**: `a = look(target)`; one foreign activity of `noise::disturb` (a parse that fails,
//!   a sink that fails, a save that fails, another graph collecting a group, …); `b = look(target)`.
//!
//! The oracle is the equality; what the right answer *is* is the business of the ordinary
//! campaigns of each property. No expectation about the implementation's internals is involved.

use crate::campaign::{CaseReport, Engine, Tier};
use crate::engine::Failure;
use crate::graph::{hex_of, new_graph, G};
use crate::interp::{observe_slice, tmp_file};
use crate::noise;
use crate::obs::{try_observe, ObsLevel};
use proptest::strategy::{BoxedStrategy, Just, Strategy};
use serde_json::{json, Value};
use sodg::{Hex, Label};
use std::panic::{catch_unwind, AssertUnwindSafe};
use std::str::FromStr;

const N: usize = 2;
const CAP: usize = 10;

fn s(t: &str) -> Label {
    let mut a = [' '; 8];
    for (i, c) in t.chars().take(8).enumerate() {
        a[i] = c;
    }
    Label::Str(a)
}

/// The graph under test: component A = {0,1,2,3} (one group; 1 holds a datum that was read, 2 an
/// unread heap datum), component B = {5,6} (another group, one unread inline datum), 4 isolated.
fn build_target() -> Box<dyn G> {
    let mut g = new_graph(N, CAP);
    for v in 0..7 {
        g.add(v);
    }
    g.put(1, &hex_of(&[0x11, 0x12, 0x13]));
    let _ = g.data(1);
    g.bind(0, 1, s("aa"));
    g.bind(1, 2, s("bb"));
    g.bind(0, 3, s("dd"));
    g.bind(5, 6, s("cc"));
    g.bind(2, 0, Label::Alpha(0));
    g.put(2, &hex_of(&[0x21, 0x22, 0x23, 0x24, 0x25, 0x26, 0x27, 0x28, 0x29]));
    g.put(6, &hex_of(&[6]));
    g
}

/// Another graph of the same type with other ids, labels and data.
fn build_foreign() -> Box<dyn G> {
    let mut g = new_graph(N, CAP);
    for v in [1usize, 7, 8, 9] {
        g.add(v);
    }
    g.bind(7, 8, s("ff"));
    g.bind(8, 9, Label::Greek('k'));
    g.bind(9, 7, Label::Alpha(3));
    g.put(8, &hex_of(&[0x81; 12]));
    g.put(1, &hex_of(&[1, 1]));
    g
}

pub struct Fix {
    pub g: Box<dyn G>,
    pub f: Box<dyn G>,
    pub img_g: std::path::PathBuf,
    pub img_f: std::path::PathBuf,
    pub cut_g: std::path::PathBuf,
    pub cut_f: std::path::PathBuf,
}

impl Fix {
    pub fn new() -> Self {
        let (g, f) = (build_target(), build_foreign());
        let (img_g, img_f, cut_g, cut_f) = (tmp_file("echo-g"), tmp_file("echo-f"), tmp_file("echo-gc"), tmp_file("echo-fc"));
        let _ = g.save(&img_g);
        let _ = f.save(&img_f);
        for (src, dst, k) in [(&img_g, &cut_g, 5usize), (&img_f, &cut_f, 3)] {
            if let Ok(b) = std::fs::read(src) {
                let _ = std::fs::write(dst, &b[..b.len() * k / 8]);
            }
        }
        Self { g, f, img_g, img_f, cut_g, cut_f }
    }
}

impl Drop for Fix {
    fn drop(&mut self) {
        for p in [&self.img_g, &self.img_f, &self.cut_g, &self.cut_f] {
            let _ = std::fs::remove_file(p);
        }
    }
}

impl Default for Fix {
    fn default() -> Self {
        Self::new()
    }
}

fn full(g: &dyn G) -> String {
    match try_observe(g, ObsLevel::FULL) {
        Ok(o) => format!("{o:?}"),
        Err(e) => format!("PANIC {e}"),
    }
}

pub struct Look {
    pub name: &'static str,
    pub props: &'static [&'static str],
    /// `target`: look at the graph / value under test; otherwise at the foreign one
    pub f: fn(&Fix, bool) -> String,
}

fn pick<'a>(x: &'a Fix, target: bool) -> &'a dyn G {
    if target { &*x.g } else { &*x.f }
}

pub const LOOKS: &[Look] = &[
    Look { name: "keys/len/is_empty", props: &["C01", "C02", "C19"], f: |x, t| { let g = pick(x, t); format!("{:?} {} {}", g.keys(), g.len(), g.is_empty()) } },
    Look { name: "kids/kid", props: &["C03", "C19"], f: |x, t| {
        let g = pick(x, t);
        let (a, b) = if t { (0, 1) } else { (7, 8) };
        format!("{:?} {:?} {:?} {:?} {:?}", g.kids(a), g.kids(b), g.kid(a, s("aa")), g.kid(a, s("ff")), g.kid(b, Label::Greek('k')))
    } },
    Look { name: "v_print", props: &["C20", "C19"], f: |x, t| { let g = pick(x, t); let (a, b) = if t { (0, 2) } else { (7, 8) }; format!("{:?} {:?}", g.v_print(a).ok(), g.v_print(b).ok()) } },
    Look { name: "inspect", props: &["C20", "C19"], f: |x, t| { let g = pick(x, t); format!("{:?}", g.inspect(if t { 0 } else { 7 }).ok()) } },
    Look { name: "inspect(other start)", props: &[], f: |x, t| { let g = pick(x, t); format!("{:?}", g.inspect(if t { 5 } else { 1 }).ok()) } },
    Look { name: "Debug/Display", props: &["C20", "C19"], f: |x, t| { let g = pick(x, t); format!("{}|{}", g.debug(), g.display()) } },
    Look { name: "to_xml", props: &["C18", "C19"], f: |x, t| format!("{:?}", pick(x, t).to_xml().ok()) },
    Look { name: "to_dot", props: &["C18", "C19"], f: |x, t| pick(x, t).to_dot() },
    Look { name: "slice", props: &["C13", "C19"], f: |x, t| {
        let g = pick(x, t);
        // the target's component B (5, 6) and vertex 4 are NOT reachable from 0
        format!("{:?}", g.slice(if t { 0 } else { 7 }).map(|sl| observe_slice(&*sl)).map_err(|e| format!("{e:#}")))
    } },
    Look { name: "slice_some", props: &["C13", "C19"], f: |x, t| {
        let g = pick(x, t);
        format!("{:?}", g.slice_some(if t { 0 } else { 7 }, &|_, to, _| to != 2 && to != 9).map(|sl| observe_slice(&*sl)).map_err(|e| format!("{e:#}")))
    } },
    Look { name: "slice(other start)", props: &["C13"], f: |x, t| {
        let g = pick(x, t);
        format!("{:?}", g.slice(if t { 5 } else { 1 }).map(|sl| observe_slice(&*sl)).map_err(|e| format!("{e:#}")))
    } },
    Look { name: "save+load", props: &["C08", "C19"], f: |x, t| {
        let g = pick(x, t);
        let p = tmp_file("echo-sl");
        let r = g.save(&p).and_then(|sz| Ok((sz, std::fs::read(&p)?, g.load_same(&p)?)));
        let _ = std::fs::remove_file(&p);
        match r {
            Ok((sz, bytes, l)) => format!("{sz} {} {:?} {}", bytes.len(), bytes.iter().fold(0u64, |a, b| a.wrapping_mul(1_000_003).wrapping_add(u64::from(*b))), full(&*l)),
            Err(e) => format!("ERR {e:#}"),
        }
    } },
    Look { name: "load(complete image)", props: &["C08", "C09"], f: |x, t| {
        match pick(x, t).load_same(if t { &x.img_g } else { &x.img_f }) {
            Ok(l) => full(&*l),
            Err(e) => format!("ERR {e:#}"),
        }
    } },
    Look { name: "load(truncated image)", props: &["C09"], f: |x, t| {
        match pick(x, t).load_same(if t { &x.cut_g } else { &x.cut_f }) {
            Ok(l) => format!("OK!? {}", full(&*l)),
            Err(_) => "Err".into(),
        }
    } },
    Look { name: "clone", props: &["C10", "C19"], f: |x, t| full(&*pick(x, t).clone_box()) },
    Look { name: "slice of a clone", props: &["C10"], f: |x, t| {
        let c = pick(x, t).clone_box();
        format!("{:?}", c.slice(if t { 0 } else { 7 }).map(|sl| observe_slice(&*sl)).map_err(|e| format!("{e:#}")))
    } },
    Look { name: "clone_from", props: &["C10"], f: |x, t| {
        let mut other = new_graph(N, CAP + 3);
        other.add(11);
        other.add(2);
        other.bind(11, 2, s("zz"));
        other.put(2, &hex_of(&[0xCD; 10]));
        let _ = other.clone_from_dyn(pick(x, t));
        full(&*other)
    } },
    Look { name: "continuation on a clone (read the last unread datum, re-add, next_id)", props: &["C01", "C02", "C03", "C04", "C05", "C10", "C19"], f: |x, t| {
        let mut c = pick(x, t).clone_box();
        let (rd, re) = if t { (2, 1) } else { (8, 7) };
        let d = c.data(rd).map(|h| h.to_vec());
        let k1 = c.keys();
        c.add(re);
        let blank = (c.kids(re), c.v_print(re).ok(), c.data(re).map(|h| h.to_vec()));
        let ids = (c.next_id(), c.next_id());
        c.add(ids.0);
        format!("{d:?} {k1:?} {blank:?} {ids:?} {:?}", c.keys())
    } },
    Look { name: "continuation on a clone (new group, put, read)", props: &["C02", "C06"], f: |x, t| {
        let mut c = pick(x, t).clone_box();
        let (a, b) = if t { (7, 8) } else { (2, 3) };
        c.add(a);
        c.add(b);
        c.bind(a, b, Label::Alpha(1));
        c.put(b, &hex_of(&[5; 5]));
        let k1 = c.keys();
        let d = c.data(b).map(|h| h.to_vec());
        format!("{k1:?} {d:?} {:?}", c.keys())
    } },
    Look { name: "merge(tree) onto a clone", props: &["C11", "C05", "C19"], f: |x, t| {
        let mut c = pick(x, t).clone_box();
        let mut h = new_graph(N, CAP);
        let (r, k, kk, left) = if t { (0usize, 7usize, 8usize, 0usize) } else { (3, 5, 6, 7) };
        for v in [r, k, kk] {
            h.add(v);
        }
        h.bind(r, k, if t { s("aa") } else { s("ff") });
        h.bind(k, kk, s("new"));
        h.put(kk, &hex_of(&[0x77; 10]));
        h.put(k, &hex_of(&[0x70, 0x71]));
        let r = c.merge(&*h, left, r).map_err(|e| format!("{e:#}"));
        format!("{r:?} {} | h: {}", full(&*c), full(&*h))
    } },
    Look { name: "merge(right graph with an unreachable vertex) onto a clone", props: &["C12"], f: |x, t| {
        let mut c = pick(x, t).clone_box();
        let mut h = new_graph(N, CAP);
        let (r, k, extra, left) = if t { (0usize, 7usize, 9usize, 0usize) } else { (3, 5, 2, 7) };
        for v in [r, k, extra] {
            h.add(v);
        }
        h.bind(r, k, s("mm"));
        h.put(extra, &hex_of(&[1, 2, 3]));
        match c.merge(&*h, left, r) {
            Ok(()) => "Ok!?".into(),
            Err(e) => format!("Err names ν{extra}: {}", format!("{e:#}").contains(&format!("ν{extra}"))),
        }
    } },
    Look { name: "deploy(script) onto a clone", props: &["C14", "C05", "C19"], f: |x, t| {
        let mut c = pick(x, t).clone_box();
        let text = if t {
            "ADD($ν1); BIND(ν3, $ν1, foo); PUT($ν1, 01-02-03-04-05-06-07-08-09-0A); # c\n ADD($x); BIND($ν1, $x, α7); PUT(ν4, CA-FE);"
        } else {
            "ADD($q); BIND(ν1, $q, bar); PUT($q, F1-F2-F3-F4-F5-F6-F7-F8-F9-FA-FB);"
        };
        let r = c.deploy(text).map_err(|e| format!("{e:#}"));
        format!("{r:?} {}", full(&*c))
    } },
    Look { name: "deploy(malformed script) onto a clone", props: &["C14"], f: |x, t| {
        let mut c = pick(x, t).clone_box();
        let text = if t { "ADD($ν1); BIND(ν3, $ν1, foo); PUT($ν1, 01-02-03-04-05-06-07-08-09-ZZ);" } else { "ADD($q); BIND(ν1, $q, toolonglabel);" };
        let r = c.deploy(text).is_err();
        format!("err={r} {}", full(&*c))
    } },
    Look { name: "Label: parse, print, compare", props: &["C17"], f: |_, t| {
        let texts: &[&str] = if t { &["hello", "ρ", "α42", "ab+ρ𝜑-01", "xy", "toolonglabel", "α4x"] } else { &["world", "φ", "α7", "zz-𝜑𝜑𝜑𝜑+", "yx", "ninechars", "αα"] };
        let mut out = String::new();
        for tx in texts {
            match Label::from_str(tx) {
                Ok(l) => out.push_str(&format!("{tx}->{l}|{l:?}|{};", l == s(tx))),
                Err(_) => out.push_str(&format!("{tx}->Err;")),
            }
        }
        let v = if t { [s("hello"), Label::Greek('ρ'), Label::Alpha(42)] } else { [s("world"), Label::Greek('φ'), Label::Alpha(7)] };
        for l in v {
            out.push_str(&format!("{l}|{l:?};"));
        }
        out
    } },
    Look { name: "Hex: parse, print, index", props: &["C15"], f: |_, t| {
        let texts: &[&str] = if t { &["01-02-03-04-05-06-07-08-09-0A-0B", "CA-FE", "0102030405060708090A", "01-02-03-04-05-06-07-08-09-ZZ"] } else { &["F1-F2-F3-F4-F5-F6-F7-F8-F9-FA-FB-FC", "BE-EF-00", "F1F2F3F4F5F6F7F8F9", "F1-F2-G3"] };
        let mut out = String::new();
        for tx in texts {
            match Hex::from_str(tx) {
                Ok(h) => out.push_str(&format!("{}|{h:?}|{}|{:?}|{:?};", h.print(), h.len(), h.to_vec(), h.tail(1).to_vec())),
                Err(_) => out.push_str("Err;"),
            }
        }
        let h = hex_of(if t { &[9, 8, 7, 6, 5, 4, 3, 2, 1, 0, 1] } else { &[1, 2, 3, 4, 5, 6, 7, 8, 9] });
        out.push_str(&format!("{}|{h}|{:?}|{:?}|{:?}", h.print(), &h[1..=3], h.to_i64().is_err(), Hex::from_str(&h.print()).map(|x| x == h)));
        out
    } },
    Look { name: "concat", props: &["C16"], f: |_, t| {
        let (a, b) = if t { (hex_of(&[1, 2, 3, 4, 5, 6, 7, 8, 9]), hex_of(&[0xA, 0xB])) } else { (hex_of(&[7; 12]), hex_of(&[8; 9])) };
        let c = a.concat(&b);
        let d = hex_of(&[1, 2, 3]).concat(&hex_of(&[4, 5]));
        format!("{:?} {:?} {:?} {:?}", c.to_vec(), a.to_vec(), b.to_vec(), d.to_vec())
    } },
];

/// mutations of the stale relation: the i-th call of family `fam`, applied to a graph built by build_target()
fn mutate(g: &mut dyn G, fam: usize, i: usize) {
    match fam {
        0 => g.put(6, &hex_of(&vec![i as u8; 1 + i % 3])),
        1 => g.bind(5, 6, s("cc")),
        2 => g.bind(0, if i % 2 == 0 { 3 } else { 1 }, s("aa")),
        3 => g.put(2, &hex_of(&vec![(i % 251) as u8; 9 + i % 2])),
        4 => {
            g.add(7);
            g.add(8);
            g.bind(7, 8, Label::Alpha(i % 3));
            g.put(8, &hex_of(&[i as u8; 4]));
            let _ = g.data(8);
        }
        5 => g.add(4),
        _ => {
            g.put(4, &hex_of(&[i as u8, 1]));
            let _ = g.data(4);
        }
    }
}
pub const FAMILIES: usize = 7;
const FAMILY_NAMES: [&str; FAMILIES] = [
    "put(6, i-th datum)", "bind(5,6,cc) again", "bind(0, 3 or 1 in turn, aa)", "put(2, 9 or 10 bytes)",
    "add 7, add 8, bind, put, read: a group formed and collected", "add(4) on a present vertex", "put(4) and read it (ungrouped)",
];

pub fn counts(thorough: bool) -> Vec<u64> {
    if thorough {
        vec![2, 3, 127, 128, 129, 254, 255, 256, 257, 258, 511, 512, 513, 1023, 1024, 1025, 4095, 4096, 4097, 32_767, 32_768, 32_769, 65_534, 65_535, 65_536, 65_537, 65_538, 131_071, 131_072, 131_073]
    } else {
        vec![2, 255, 256, 257, 65_535, 65_536, 65_537]
    }
}

fn looks_of(prop: &str) -> Vec<usize> {
    (0..LOOKS.len()).filter(|i| LOOKS[*i].props.contains(&prop)).collect()
}

fn look(x: &Fix, li: usize, target: bool) -> String {
    let f = LOOKS[li].f;
    catch_unwind(AssertUnwindSafe(|| f(x, target))).unwrap_or_else(|e| format!("PANIC {}", crate::interp::panic_text(e)))
}

fn short(a: &str, b: &str) -> String {
    // the first place where the two answers part, with some context
    let (ca, cb): (Vec<char>, Vec<char>) = (a.chars().collect(), b.chars().collect());
    let p = ca.iter().zip(cb.iter()).take_while(|(x, y)| x == y).count();
    let from = p.saturating_sub(60);
    let cut = |c: &Vec<char>| c.iter().skip(from).take(200).collect::<String>();
    format!("first: …{} / then: …{}", cut(&ca), cut(&cb))
}

/// kind 0 = foreign, 1 = stale, 2 = fault
pub fn check_point(prop: &str, kind: u64, li: usize, r: u64, extra: u64) -> Option<Failure> {
    let mk = |k: &str, detail: String| Some(Failure { prop: prop.into(), kind: k.into(), step: r as usize, detail });
    match kind {
        0 => {
            let x = Fix::new();
            // a second look at ANOTHER part of the graph under test (extra = its index + 1) is taken
            // first and must read the same at the end: what the look in the middle touched does not
            // leak into it, however many foreign calls lie between
            let partner = (extra > 0).then(|| extra as usize - 1);
            let p0 = partner.map(|p| look(&x, p, true));
            let a = look(&x, li, true);
            for i in 1..r {
                let _ = look(&x, li, false);
                if i % 4096 == 0 {
                    crate::campaign::touch();
                }
            }
            if let (Some(p), Some(p0)) = (partner, p0) {
                let p1 = look(&x, p, true);
                if p0 != p1 {
                    return mk("echo.foreign_calls_change_answer", format!(
                        "look '{}' at the graph under test, then look '{}' at it, then {} times that look at another graph, then look '{}' again (the {r}th call after the one in the middle): the answers differ — {}",
                        LOOKS[p].name, LOOKS[li].name, r - 1, LOOKS[p].name, short(&p0, &p1)));
                }
            }
            let b = look(&x, li, true);
            if a != b {
                return mk("echo.foreign_calls_change_answer", format!(
                    "look '{}' at the graph under test, then {} times the same look at another graph, then again at the graph under test (the {r}th call after the first): the answers differ — {}",
                    LOOKS[li].name, r - 1, short(&a, &b)));
            }
            None
        }
        1 => {
            let fam = extra as usize;
            let (mut y1, mut y2) = (Fix::new(), Fix::new());
            // everything is asked of the first graph once (and nothing of the second)
            for l in 0..LOOKS.len() {
                if !LOOKS[l].props.iter().any(|p| matches!(*p, "C15" | "C16" | "C17")) {
                    let _ = look(&y1, l, true);
                }
            }
            for i in 0..r as usize {
                let (g, g2) = (&mut y1.g, &mut y2.g);
                let ok = catch_unwind(AssertUnwindSafe(|| {
                    mutate(&mut **g, fam, i);
                    mutate(&mut **g2, fam, i);
                }));
                if ok.is_err() {
                    return None; // an in-limit panic of a mutation is the business of C02
                }
                if i % 4096 == 0 {
                    crate::campaign::touch();
                }
            }
            // the images on disk belong to the state before the mutations: looks that read them are left out
            if LOOKS[li].name.starts_with("load(") {
                return None;
            }
            let (a, b) = (look(&y1, li, true), look(&y2, li, true));
            if a != b {
                return mk("echo.earlier_look_changes_later_answer", format!(
                    "two graphs built by the same calls; everything was asked of the first one; then {r} times '{}' on both; look '{}' now differs — {}",
                    FAMILY_NAMES[fam], LOOKS[li].name, short(&a, &b)));
            }
            None
        }
        _ => {
            let x = Fix::new();
            noise::reset();
            let a = look(&x, li, true);
            noise::disturb(N, extra as u16);
            let b = look(&x, li, true);
            // and once more after the same activity twice in a row
            noise::disturb(N, extra as u16);
            noise::disturb(N, extra as u16);
            let c = look(&x, li, true);
            if a != b || a != c {
                return mk("echo.fault_changes_answer", format!(
                    "look '{}', then foreign activity no. {} (kind {}, argument {}) on other objects of the same thread, then the same look: the answers differ — {}",
                    LOOKS[li].name, extra, extra % u64::from(noise::KINDS), extra / u64::from(noise::KINDS), short(&a, if a != b { &b } else { &c })));
            }
            None
        }
    }
}

pub fn points(prop: &str, thorough: bool) -> Vec<(u64, usize, u64, u64)> {
    let mut v = vec![];
    let ls = looks_of(prop);
    let idx_of = |name: &str| LOOKS.iter().position(|l| l.name == name).unwrap() as u64;
    for li in &ls {
        for r in counts(thorough) {
            v.push((0, *li, r, 0));
        }
        // traversals: what one start reached must not show in the answer for another start
        let partner = match LOOKS[*li].name {
            "slice" | "slice_some" | "slice of a clone" => Some(idx_of("slice(other start)")),
            "slice(other start)" => Some(idx_of("slice")),
            "inspect" => Some(idx_of("inspect(other start)")),
            _ => None,
        };
        if let Some(p) = partner {
            for r in counts(thorough) {
                v.push((0, *li, r, p + 1));
            }
        }
    }
    let graphy: Vec<usize> = ls.iter().copied().filter(|l| !LOOKS[*l].props.iter().any(|p| matches!(*p, "C15" | "C16" | "C17"))).collect();
    for li in &graphy {
        for fam in 0..FAMILIES as u64 {
            for r in counts(thorough) {
                v.push((1, *li, r, fam));
            }
        }
    }
    for li in &ls {
        let args: u64 = if thorough { 12 } else { 4 };
        for sel in 0..u64::from(noise::KINDS) * args {
            v.push((2, *li, 1, sel));
        }
    }
    v
}

pub struct EchoEngine {
    pub prop: &'static str,
    pub shard: u64,
    pub of: u64,
    pub thorough: bool,
}

impl Engine for EchoEngine {
    type Case = u8;
    fn name(&self) -> &'static str {
        "echo-sweeps"
    }
    fn strategy(&self, _: Tier) -> BoxedStrategy<u8> {
        Just(0u8).boxed()
    }
    fn run(&self, _: &u8) -> CaseReport {
        let mut evals = 0u64;
        let mut subs = vec![];
        let mut failure = None;
        let mut payload = None;
        // heavy points (big R) are dealt round-robin, so sort them by weight first
        let mut pts = points(self.prop, self.thorough);
        pts.sort_by_key(|p| std::cmp::Reverse(p.2));
        for (i, (kind, li, r, extra)) in pts.into_iter().enumerate() {
            if i as u64 % self.of != self.shard {
                continue;
            }
            crate::campaign::touch();
            evals += 1;
            if let Some(f) = check_point(self.prop, kind, li, r, extra) {
                payload = Some(json!({"kind": kind, "look": li, "look_name": LOOKS[li].name, "r": r, "extra": extra}));
                failure = Some(f);
                break;
            }
            subs.push((kind << 60) ^ ((li as u64) << 48) ^ (r << 20) ^ extra ^ 0xEC40_0000_0000_0000);
        }
        noise::reset();
        CaseReport {
            payload,
            failure,
            evaluations: evals,
            sub_hashes: subs,
            events: vec!["bounded-exhaustive: every look of this property x every repeat count (foreign calls in between) x every mutation family (an earlier look) x every foreign activity (faults on the same thread)"],
            ..Default::default()
        }
    }
    fn render(&self, _: &u8) -> Value {
        let ls: Vec<&str> = looks_of(self.prop).into_iter().map(|l| LOOKS[l].name).collect();
        json!({"looks": ls, "repeat_counts": counts(self.thorough), "mutation_families": FAMILY_NAMES, "foreign_activities": noise::KINDS,
               "points": points(self.prop, self.thorough).len(), "this_worker": format!("every {}th point", self.of)})
    }
    fn replay(&self, payload: &Value) -> Option<Failure> {
        check_point(self.prop, payload["kind"].as_u64()?, payload["look"].as_u64()? as usize, payload["r"].as_u64()?, payload["extra"].as_u64()?)
    }
}
