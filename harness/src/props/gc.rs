//! C01–C05 on engine `gcmodel`.

use crate::calls::{render_calls, Call, Cfg};
use crate::campaign::{ddmin, CaseReport, Engine, Tier};
use crate::engine::{make_oracle, run_concrete, run_seeded, CaseOutcome, Failure, Oracle};
use crate::gen::{hist_strategy, HistSeed, Profile};
use crate::interp::{Runner, StepInfo};
use crate::obs::{Obs, ObsLevel};
use proptest::strategy::{BoxedStrategy, Strategy};
use serde_json::{json, Value};

pub struct GcEngine {
    pub prop: &'static str,
    pub profiles: Vec<Profile>,
    pub max_len: usize,
}

pub struct NullOracle;
impl Oracle for NullOracle {
    fn prop(&self) -> &'static str {
        "-"
    }
    fn owns_panic(&self, _: &Call) -> bool {
        false
    }
    fn check(&mut self, _: &mut Runner, _: &StepInfo, _: Option<(&Obs, &Obs)>) -> Option<Failure> {
        None
    }
}

impl GcEngine {
    pub fn for_prop(prop: &'static str) -> Self {
        use Profile::*;
        let profiles = match prop {
            "C01" => vec![GcOrders, GcOrders, Readd, Overwrite, Forest, Alloc, ManyGroups],
            "C02" => vec![GcOrders, GcOrders, Overwrite, Readd, Limit, Limit, ManyGroups],
            "C03" => vec![Overwrite, Overwrite, GcOrders, Readd, Queries],
            "C04" => vec![Readd, Readd, Readd, Readd, GcOrders],
            "C05" => vec![Alloc, Alloc, Dense, Dense, Forest],
            _ => vec![GcOrders],
        };
        Self { prop, profiles, max_len: 80 }
    }

    fn nontrivial(&self, o: &CaseOutcome) -> bool {
        let e = |s: &str| o.events.contains(s);
        if o.closed.is_some() {
            return false;
        }
        match self.prop {
            // a call removed a vertex while another present vertex had to survive
            "C01" => e("collect.with_survivors"),
            "C02" => {
                o.groups_died >= 1
                    && (e("put.ungrouped") && e("bind.carries_unread")
                        || e("put.overwrite_unread")
                        || e("put.after_read")
                        || e("add.present_grouped")
                        || e("data.first_others_remain")
                        || o.groups_died >= 2)
            }
            "C03" => (e("bind.rebind_label") || e("put.overwrite_unread")) && o.groups_died >= 1,
            "C04" => (e("add.present_grouped") || e("add.recycled_stale")) && o.groups_died >= 1,
            "C05" => {
                let n = o.calls.iter().filter(|c| matches!(c, Call::NextId | Call::NextIdAdd)).count();
                n >= 2 && (o.groups_died >= 1 || e("clone") || e("merge") || e("add.fresh"))
            }
            _ => true,
        }
    }

    fn payload(cfg: Cfg, calls: &[Call]) -> Value {
        json!({ "cfg": cfg, "calls": calls, "rendered": render_calls(cfg, calls) })
    }

    /// C04 (ii): deleting every add() of a present id must not change anything observable.
    fn metamorphic(&self, cfg: Cfg, o: &CaseOutcome) -> Option<Failure> {
        if o.readd_present_idx.is_empty() {
            return None;
        }
        let reduced: Vec<Call> = o
            .calls
            .iter()
            .enumerate()
            .filter(|(i, _)| !o.readd_present_idx.contains(i))
            .map(|(_, c)| c.clone())
            .collect();
        let full = run_concrete(cfg, &o.calls, &mut NullOracle, Some(ObsLevel::BASIC));
        let red = run_concrete(cfg, &reduced, &mut NullOracle, Some(ObsLevel::BASIC));
        if full.closed.is_some() || red.closed.is_some() || full.calls.len() != o.calls.len() || red.calls.len() != reduced.len() {
            return None; // not comparable (a call became invalid on one side): inconclusive
        }
        let mut j = 0;
        for i in 0..full.trace.len().min(o.calls.len()) {
            if o.readd_present_idx.contains(&i) {
                continue;
            }
            if j >= red.trace.len() {
                break;
            }
            if full.trace[i] != red.trace[j] {
                let d = crate::obs::diff(&full.trace[i].1, &red.trace[j].1)
                    .unwrap_or_else(|| format!("result {:?} vs {:?}", full.trace[i].0, red.trace[j].0));
                return Some(Failure {
                    prop: "C04".into(),
                    kind: "add.present_changes_future".into(),
                    step: i,
                    detail: format!(
                        "deleting the add() calls on present ids (at steps {:?}) changes what is observed after step {i} ({}): {d}",
                        o.readd_present_idx, o.calls[i].render()
                    ),
                });
            }
            j += 1;
        }
        None
    }

    fn run_calls(&self, cfg: Cfg, calls: &[Call]) -> Option<Failure> {
        let mut o = make_oracle(self.prop);
        let out = run_concrete(cfg, calls, &mut *o, None);
        if let Some(mut f) = out.failure {
            f.prop = self.prop.into();
            return Some(f);
        }
        if self.prop == "C03" {
            // the same calls with nothing asked in between (see C03::quiet)
            let mut q = crate::engine::C03::quiet();
            if let Some(f) = run_concrete(cfg, calls, &mut q, None).failure {
                return Some(f);
            }
        }
        if self.prop == "C04" && out.closed.is_none() {
            if let Some(f) = self.metamorphic(cfg, &out) {
                return Some(f);
            }
        }
        if out.closed.is_none() {
            return self.blind(cfg, calls);
        }
        None
    }

    /// C02–C05: the same calls once more without keys() around every call (engine::run_blind).
    fn blind(&self, cfg: Cfg, calls: &[Call]) -> Option<Failure> {
        if self.prop == "C01" {
            return None;
        }
        let mut o: Box<dyn Oracle> = if self.prop == "C03" { Box::new(crate::engine::C03::quiet()) } else { make_oracle(self.prop) };
        let mut f = crate::engine::run_blind(cfg, calls, &mut *o)?;
        f.prop = self.prop.into();
        Some(f)
    }
}

impl Engine for GcEngine {
    type Case = HistSeed;

    fn name(&self) -> &'static str {
        "gcmodel"
    }

    fn strategy(&self, _tier: Tier) -> BoxedStrategy<HistSeed> {
        hist_strategy(self.max_len).boxed()
    }

    fn run(&self, case: &HistSeed) -> CaseReport {
        let mut o = make_oracle(self.prop);
        let out = run_seeded(case, &self.profiles, &mut *o, None);
        let cfg = out.cfg.unwrap();
        let mut failure = out.failure.clone();
        if failure.is_none() && self.prop == "C04" && out.closed.is_none() {
            failure = self.metamorphic(cfg, &out);
        }
        if failure.is_none() && self.prop == "C03" && case.order_sel % 4 == 3 {
            // one case in four runs once more with nothing asked between the history's own queries
            let mut q = crate::engine::C03::quiet();
            failure = run_concrete(cfg, &out.calls, &mut q, None).failure;
        }
        let mut blind_ev = None;
        if failure.is_none() && out.closed.is_none() && self.prop != "C01" && case.order_sel % 4 == 1 {
            // one case in four: a blind run, up to the end of the generated part or through the epilogue
            let upto = if case.order_sel % 8 == 1 { out.gen_calls.min(out.calls.len()) } else { out.calls.len() };
            failure = self.blind(cfg, &out.calls[..upto]);
            blind_ev = Some(if upto == out.calls.len() { "blind_run.through_epilogue" } else { "blind_run.generated_part" });
        }
        if let Some(f) = &mut failure {
            f.prop = self.prop.into();
        }
        let mut events: Vec<&'static str> = out.events.iter().copied().collect();
        events.extend(blind_ev);
        if let Some(c) = out.closed {
            events.push(c);
        }
        if out.groups_died >= 1 {
            events.push("some_group_died");
        }
        if out.max_groups_alive >= 14 {
            events.push("reached_14_groups");
        }
        if out.max_group_size >= 16 {
            events.push("reached_group_of_16");
        }
        if out.max_labels >= cfg.n {
            events.push("reached_N_labels");
        }
        let nontrivial = self.nontrivial(&out);
        CaseReport {
            payload: failure.as_ref().map(|_| Self::payload(cfg, &out.calls)),
            failure,
            nontrivial,
            hash: out.hash64(),
            events,
            counters: vec![
                ("calls", out.calls.len() as u64),
                ("generated_calls", out.gen_calls as u64),
                ("skipped_seeds", u64::from(out.skipped_seeds)),
                ("vertices_collected", out.collections),
                ("groups_died", out.groups_died),
            ],
            evaluations: 1,
            ..Default::default()
        }
    }

    fn render(&self, case: &HistSeed) -> Value {
        let mut o = make_oracle(self.prop);
        let out = run_seeded(case, &self.profiles, &mut *o, None);
        let cfg = out.cfg.unwrap();
        let mut s = render_calls(cfg, &out.calls[..out.gen_calls.min(out.calls.len())]);
        if s.len() > 1500 {
            s.truncate(s.char_indices().take_while(|(i, _)| *i < 1500).last().map_or(0, |x| x.0));
            s.push_str(" …");
        }
        json!({ "history": s, "epilogue_calls": out.calls.len() - out.gen_calls.min(out.calls.len()),
                "groups_died": out.groups_died, "vertices_collected": out.collections })
    }

    fn minimise(&self, payload: Value, kind: &str) -> Value {
        let Ok(cfg) = serde_json::from_value::<Cfg>(payload["cfg"].clone()) else {
            return payload;
        };
        let Ok(calls) = serde_json::from_value::<Vec<Call>>(payload["calls"].clone()) else {
            return payload;
        };
        let mut budget = 4000u64;
        let mut pred = |c: &[Call]| self.run_calls(cfg, c).is_some_and(|f| f.kind == kind);
        if !pred(&calls) {
            return payload;
        }
        let min = ddmin(calls, &mut pred, &mut budget);
        Self::payload(cfg, &min)
    }

    fn replay(&self, payload: &Value) -> Option<Failure> {
        let cfg: Cfg = serde_json::from_value(payload["cfg"].clone()).ok()?;
        let calls: Vec<Call> = serde_json::from_value(payload["calls"].clone()).ok()?;
        self.run_calls(cfg, &calls)
    }
}

// ----------------------------------------------------------- byte-level (libFuzzer) layer

/// Decode a fuzzer input into a history seed (plain fixed layout; every byte string decodes).
pub fn decode(b: &[u8]) -> HistSeed {
    let g = |i: usize| b.get(i).copied().unwrap_or(0);
    let g16 = |i: usize| u16::from(g(i)) | (u16::from(g(i + 1)) << 8);
    let mut hs = HistSeed { n_sel: g(0), cap_sel: g(1), profile_sel: g(2), order_sel: g16(3), ops: vec![] };
    let mut p = 5;
    while p + 9 <= b.len() && hs.ops.len() < 80 {
        hs.ops.push((g(p), g16(p + 1), g16(p + 3), g16(p + 5), g16(p + 7)));
        p += 9;
    }
    hs
}

pub fn encode(hs: &HistSeed) -> Vec<u8> {
    let mut b = vec![hs.n_sel, hs.cap_sel, hs.profile_sel];
    b.extend_from_slice(&hs.order_sel.to_le_bytes());
    for (k, a, x, y, z) in &hs.ops {
        b.push(*k);
        for v in [a, x, y, z] {
            b.extend_from_slice(&v.to_le_bytes());
        }
    }
    b
}

/// One libFuzzer iteration of the gcmodel engine for property `prop` (C01..C05): a fresh
/// graph and model per input; the semantic oracle of that property decides.
pub fn fuzz_one(prop: &'static str, data: &[u8]) -> Option<Failure> {
    GcEngine::for_prop(prop).run(&decode(data)).failure
}
