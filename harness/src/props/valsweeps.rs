//! Dimension sweeps over the value types (bounded-exhaustive complements of C15, C16, C17):
//! every Hex length up to a bound with the index space around every boundary, every pair
//! of concat operand lengths in a square plus two long strips, every Unicode scalar value
//! as a label character and every alpha index up to a bound.

use crate::campaign::{CaseReport, Engine, Tier};
use crate::engine::Failure;
use crate::props::hexlab::{caught, check_hex_at, check_value, hx, make, repr_of, ConcatEngine, LabelEngine, Rep, REPS};
use proptest::prelude::*;
use proptest::strategy::BoxedStrategy;
use serde_json::{json, Value};
use sodg::Label;
use std::collections::{BTreeMap, BTreeSet};

fn pat(len: usize, salt: u8) -> Vec<u8> {
    (0..len).map(|i| (i as u8).wrapping_mul(37).wrapping_add(salt) ^ ((i >> 8) as u8).wrapping_mul(11) ^ 0x3C).collect()
}

pub struct ValSweep {
    pub prop: &'static str,
    pub shard: u64,
    pub of: u64,
    pub thorough: bool,
    pub tolerate: BTreeSet<String>,
}

const PAD: [u8; 8] = [0xE1, 0xE2, 0xE3, 0xE4, 0xE5, 0xE6, 0xE7, 0xE8];

impl ValSweep {
    /// C15: one length
    fn hex_len(&self, len: usize) -> (Option<Failure>, u64) {
        let bytes = pat(len, 0x51);
        let mut idxs: Vec<usize> = vec![0, 1, 7, 8, 9, len / 2, len.saturating_sub(1), len, len + 1, len + 9, usize::MAX - 1, usize::MAX];
        idxs.sort_unstable();
        idxs.dedup();
        let mut evals = 0;
        for rep in REPS {
            let Some(h) = make(rep, &bytes, &PAD) else { continue };
            let (fails, n) = check_hex_at(&h, &bytes, &format!("Hex {rep:?} of {len} bytes"), &idxs);
            evals += n;
            if let Some((k, d)) = fails.into_iter().next() {
                return (Some(Failure { prop: "C15".into(), kind: k, step: len, detail: d.chars().take(600).collect() }), evals);
            }
        }
        (None, evals)
    }

    /// C15: the constructor from text, for the texts built from one character
    fn text_char(&self, c: char) -> (Option<Failure>, u64) {
        use sodg::Hex;
        let mut evals = 0;
        for t in [c.to_string(), format!("{c}ab"), format!("ab{c}"), format!("{c}{c}{c}")] {
            evals += 1;
            let got = caught(|| {
                let h = Hex::from_str_bytes(&t);
                (h.bytes().to_vec(), h.len(), h.to_utf8().ok())
            });
            let want = Ok((t.as_bytes().to_vec(), t.len(), Some(t.clone())));
            if got != want {
                return (
                    Some(Failure { prop: "C15".into(), kind: "hex.from_str_bytes".into(), step: c as usize, detail: format!("Hex::from_str_bytes({t:?}) (character U+{:04X}): bytes/len/to_utf8 = {got:?}, the text's bytes are {:?}", c as u32, t.as_bytes()) }),
                    evals,
                );
            }
        }
        (None, evals)
    }

    /// C15: the integer / float constructors: a = kind, b = value bits
    fn number(&self, kind: u64, bits: u64) -> (Option<Failure>, u64) {
        use sodg::Hex;
        let r = caught(|| match kind {
            0 => (Hex::from(bits as u8 as i8).bytes().to_vec(), (bits as u8 as i8).to_be_bytes().to_vec()),
            1 => (Hex::from(bits as u16 as i16).bytes().to_vec(), (bits as u16 as i16).to_be_bytes().to_vec()),
            2 => (Hex::from(bits as u32 as i32).bytes().to_vec(), (bits as u32 as i32).to_be_bytes().to_vec()),
            3 => (Hex::from(f32::from_bits(bits as u32)).bytes().to_vec(), (bits as u32).to_be_bytes().to_vec()),
            4 => {
                let h = Hex::from(bits as i64);
                let back = h.to_i64().ok().map(|x| x as u64);
                (h.bytes().to_vec(), if back == Some(bits) { bits.to_be_bytes().to_vec() } else { vec![] })
            }
            _ => {
                let h = Hex::from(f64::from_bits(bits));
                let back = h.to_f64().ok().map(f64::to_bits);
                (h.bytes().to_vec(), if back == Some(bits) { bits.to_be_bytes().to_vec() } else { vec![] })
            }
        });
        let name = ["i8", "i16", "i32", "f32", "i64", "f64"][kind as usize % 6];
        match r {
            Ok((got, want)) if got == want => (None, 1),
            other => (Some(Failure { prop: "C15".into(), kind: format!("hex.from_{name}"), step: 0, detail: format!("Hex::from({name} with bits {bits:#x}): bytes (or the way back) {other:?}") }), 1),
        }
    }

    /// C16: one pair of lengths, all representations; Err(known) for the open finding
    fn concat_pair(&self, la: usize, lb: usize, known: &mut u64) -> (Option<Failure>, u64) {
        self.concat_bytes(pat(la, 0x17), pat(lb, 0xB4), known)
    }

    /// an operand that is all zero bytes except ONE byte (at every position), next to partners of
    /// several lengths that are all zero or patterned, on either side
    fn concat_single_byte(&self, len: usize, pos: usize, known: &mut u64) -> (Option<Failure>, u64) {
        let mut x = vec![0u8; len];
        x[pos] = 1;
        let mut evals = 0;
        for p in [0usize, 3, 8, 9, 12, 17] {
            for partner in [vec![0u8; p], pat(p, 0x5B)] {
                for (a, b) in [(x.clone(), partner.clone()), (partner.clone(), x.clone())] {
                    let (f, n) = self.concat_bytes(a, b, known);
                    evals += n;
                    if f.is_some() {
                        return (f, evals);
                    }
                }
            }
        }
        (None, evals)
    }

    fn concat_bytes(&self, ab: Vec<u8>, bb: Vec<u8>, known: &mut u64) -> (Option<Failure>, u64) {
        let (la, lb) = (ab.len(), bb.len());
        let mut evals = 0;
        for ra in REPS {
            for rb in REPS {
                let (Some(a), Some(b)) = (make(ra, &ab, &PAD), make(rb, &bb, &PAD)) else { continue };
                let (a0, b0) = (repr_of(&a), repr_of(&b));
                evals += 1;
                let verdict = match caught(|| a.concat(&b)) {
                    Err(()) => Some(("concat.panic".to_string(), format!("{ra:?} of {la} bytes .concat({rb:?} of {lb} bytes) panicked"))),
                    Ok(r) => ConcatEngine::judge(&a, &b, &r, &ab, &bb).map(|(k, d)| (k, d.chars().take(400).collect::<String>())),
                }
                .or_else(|| (repr_of(&a) != a0 || repr_of(&b) != b0).then(|| ("concat.operand_changed".to_string(), format!("{}.concat({}) changed an operand", hx(&ab[..la.min(16)]), hx(&bb[..lb.min(16)])))));
                if let Some((k, d)) = verdict {
                    if self.tolerate.contains(&k) {
                        *known += 1;
                    } else {
                        return (Some(Failure { prop: "C16".into(), kind: k, step: la * 100_000 + lb, detail: format!("{ra:?}/{rb:?} ({la}+{lb} bytes): {d}") }), evals);
                    }
                }
            }
        }
        (None, evals)
    }

    /// C17: the texts built from one character
    fn label_char(&self, c: char) -> (Option<Failure>, u64) {
        let mut evals = 0u64;
        let mut counts = [0u64; 3];
        let mut seen = BTreeMap::new();
        let s8: String = std::iter::repeat(c).take(8).collect();
        let texts = [c.to_string(), format!("{c}a"), format!("a{c}"), s8.clone(), format!("a{s8}"), format!("α{c}"), format!("{c}1")];
        for t in &texts {
            if let Some((k, d)) = LabelEngine::check_text(t, &mut seen, &mut evals, &mut counts) {
                return (Some(Failure { prop: "C17".into(), kind: k, step: c as usize, detail: format!("character U+{:04X}: {d}", c as u32) }), evals);
            }
        }
        if c != ' ' && c != 'α' {
            // a single character and the index that equals its code point are different names
            let (g, x) = (Label::Greek(c), Label::Alpha(c as usize));
            evals += 1;
            let mut gr: sodg::Sodg<2> = sodg::Sodg::empty(3);
            gr.add(0);
            gr.add(1);
            gr.add(2);
            gr.bind(0, 1, g);
            gr.bind(0, 2, x);
            if g == x || gr.kid(0, g) != Some(1) || gr.kid(0, x) != Some(2) || gr.kids(0).count() != 2 {
                return (Some(Failure { prop: "C17".into(), kind: "label.not_injective".into(), step: c as usize, detail: format!("character U+{:04X}: Greek({c:?}) and Alpha({}) are taken for one label (==: {}, kid: {:?} / {:?})", c as u32, c as usize, g == x, gr.kid(0, g), gr.kid(0, x)) }), evals);
            }
        }
        if c != ' ' {
            let mut a = [' '; 8];
            a[0] = 'q';
            a[1] = c;
            for l in [Label::Greek(c), Label::Str(a)] {
                if c == 'α' {
                    continue;
                }
                if let Some((k, d)) = check_value(l, &mut evals) {
                    return (Some(Failure { prop: "C17".into(), kind: k, step: c as usize, detail: format!("character U+{:04X}: {d}", c as u32) }), evals);
                }
            }
        }
        (None, evals)
    }

    fn label_alpha(&self, k: usize) -> (Option<Failure>, u64) {
        let mut evals = 0u64;
        let mut counts = [0u64; 3];
        let mut seen = BTreeMap::new();
        let f = check_value(Label::Alpha(k), &mut evals).or_else(|| LabelEngine::check_text(&format!("α{k}"), &mut seen, &mut evals, &mut counts));
        (f.map(|(kind, d)| Failure { prop: "C17".into(), kind, step: k, detail: format!("alpha index {k}: {d}") }), evals)
    }

    /// two texts that collide under a common 32-bit hash function, parsed one right after the
    /// other (in both orders): each comes back as itself, the two labels differ, an edge bound
    /// under one is not found under the other; the same for the two byte strings as Hex texts
    fn hash_twins(&self, k: usize) -> (Option<Failure>, u64) {
        use std::str::FromStr;
        let Some(t) = crate::twins::hash_twins().get(k) else { return (None, 0) };
        let fail = |kind: &str, d: String| (Some(Failure { prop: self.prop.into(), kind: kind.into(), step: k, detail: format!("twins {:?} / {:?} (equal {}): {d}", t.a, t.b, t.hash) }), 1);
        if self.prop == "C15" {
            for (x, y) in [(&t.a, &t.b), (&t.b, &t.a)] {
                let (hx, hy) = (sodg::Hex::from_str_bytes(x), sodg::Hex::from_str_bytes(y));
                let (px, py) = (hx.print(), hy.print());
                let (rx, ry) = (sodg::Hex::from_str(&px), sodg::Hex::from_str(&py));
                if hy.to_vec() != y.as_bytes() || hx == hy || ry.as_ref().map(|h| h.to_vec()).ok() != Some(y.as_bytes().to_vec()) || rx.as_ref().map(|h| h.to_vec()).ok() != Some(x.as_bytes().to_vec()) {
                    return fail("hex.twins", format!("from_str_bytes/print/from_str of {x:?} then {y:?}: {px} {py} {:?} {:?}", rx.map(|h| h.print()).ok(), ry.map(|h| h.print()).ok()));
                }
            }
            return (None, 2);
        }
        for (x, y) in [(&t.a, &t.b), (&t.b, &t.a)] {
            let (lx, ly) = (Label::from_str(x), Label::from_str(y));
            let (Ok(lx), Ok(ly)) = (lx, ly) else { return fail("label.rejects_valid", format!("parsing {x:?} then {y:?} failed")) };
            if ly.to_string() != **y || lx.to_string() != **x {
                return fail("label.text_roundtrip", format!("parsed {x:?} then {y:?}: they print as {:?} and {:?}", lx.to_string(), ly.to_string()));
            }
            if lx == ly {
                return fail("label.not_injective", format!("parsed {x:?} then {y:?}: the labels are equal"));
            }
            let mut g: sodg::Sodg<4> = sodg::Sodg::empty(4);
            g.add(0);
            g.add(1);
            g.bind(0, 1, lx);
            if g.kid(0, ly).is_some() || g.kid(0, Label::from_str(y).unwrap_or(ly)).is_some() || g.kid(0, Label::from_str(x).unwrap_or(lx)) != Some(1) {
                return fail("label.lookup", format!("an edge bound under {x:?} is found under {y:?} (or not under {x:?})"));
            }
        }
        (None, 2)
    }

    /// the points of this property as (dimension, a, b)
    fn points(&self) -> Vec<(&'static str, u64, u64)> {
        let t = self.thorough;
        let mut v = vec![];
        match self.prop {
            "C15" => {
                for k in 0..crate::twins::hash_twins().len() as u64 {
                    v.push(("hash-twins", k, 0));
                }
                for l in 0..=if t { 9000u64 } else { 2100 } {
                    v.push(("hex-length", l, 0));
                }
                for c in [16_384u64, 32_768, 65_536, 131_072] {
                    for l in c - 9..=c + 9 {
                        v.push(("hex-length", l, 0));
                    }
                }
                // every scalar value as first / last / only character of a text handed to from_str_bytes
                for c in (0..0x3000u64).chain((0x3000..0x11_0000u64).step_by(if t { 1 } else { 7 })).chain(0xFE00..=0xFFFF) {
                    if char::from_u32(c as u32).is_some() {
                        v.push(("text-character", c, 0));
                    }
                }
                // the numeric constructors: i8 and i16 completely, the wider ones at every +-2 around
                // each power of two (both signs) and strided through the bit patterns
                for b in 0..256u64 {
                    v.push(("number", 0, b));
                }
                for b in 0..65_536u64 {
                    v.push(("number", 1, b));
                }
                for kind in 2..6u64 {
                    let width = if kind < 4 { 32 } else { 64 };
                    for k in 0..width {
                        for d in [-2i64, -1, 0, 1, 2] {
                            let p = (1u64 << k).wrapping_add(d as u64);
                            v.push(("number", kind, if width == 32 { p & 0xFFFF_FFFF } else { p }));
                            v.push(("number", kind, if width == 32 { p.wrapping_neg() & 0xFFFF_FFFF } else { p.wrapping_neg() }));
                        }
                    }
                    let stride: u64 = if width == 32 { if t { 4099 } else { 65_537 } } else { 0x0001_0001_0001_0001u64.wrapping_mul(if t { 3 } else { 257 }) };
                    let count = if width == 32 { (1u64 << 32) / stride } else if t { 1 << 21 } else { 1 << 16 };
                    let mut b = 0u64;
                    for _ in 0..count {
                        v.push(("number", kind, if width == 32 { b & 0xFFFF_FFFF } else { b }));
                        b = b.wrapping_add(stride);
                    }
                }
            }
            "C16" => {
                for len in 1..=if t { 80u64 } else { 40 } {
                    for pos in 0..len {
                        v.push(("single-byte", len, pos));
                    }
                }
                let sq = if t { 200u64 } else { 96 };
                for a in 0..=sq {
                    for b in 0..=sq {
                        v.push(("concat-lengths", a, b));
                    }
                }
                let long = if t { 20_000u64 } else { 4200 };
                for s in 0..=16u64 {
                    for l in sq + 1..=long {
                        v.push(("concat-lengths", s, l));
                        v.push(("concat-lengths", l, s));
                    }
                }
                for c in [65_536u64, 131_072] {
                    for l in c - 9..=c + 9 {
                        for s in [0u64, 1, 7, 8, 9] {
                            v.push(("concat-lengths", s, l));
                            v.push(("concat-lengths", l, s));
                        }
                    }
                }
            }
            "C17" => {
                for k in 0..crate::twins::hash_twins().len() as u64 {
                    v.push(("hash-twins", k, 0));
                }
                for c in 0..0x11_0000u64 {
                    if char::from_u32(c as u32).is_some() {
                        v.push(("label-character", c, 0));
                    }
                }
                for k in 0..=if t { 2_000_000u64 } else { 100_000 } {
                    v.push(("alpha-index", k, 0));
                }
            }
            _ => {}
        }
        v
    }

    fn one(&self, dim: &str, a: u64, b: u64, known: &mut u64) -> (Option<Failure>, u64) {
        match dim {
            "hex-length" => self.hex_len(a as usize),
            "text-character" => match char::from_u32(a as u32) {
                Some(c) => self.text_char(c),
                None => (None, 0),
            },
            "number" => self.number(a, b),
            "concat-lengths" => self.concat_pair(a as usize, b as usize, known),
            "single-byte" => self.concat_single_byte(a as usize, b as usize, known),
            "label-character" => match char::from_u32(a as u32) {
                Some(c) => self.label_char(c),
                None => (None, 0),
            },
            "alpha-index" => self.label_alpha(a as usize),
            "hash-twins" => self.hash_twins(a as usize),
            _ => (None, 0),
        }
    }
}

impl Engine for ValSweep {
    type Case = u8;
    fn name(&self) -> &'static str {
        "value-sweeps"
    }
    fn strategy(&self, _: Tier) -> BoxedStrategy<u8> {
        Just(0u8).boxed()
    }
    fn run(&self, _: &u8) -> CaseReport {
        let mut evals = 0u64;
        let mut known = 0u64;
        let mut failure = None;
        let mut payload = None;
        let mut subs = vec![];
        let mut since_touch = 0u32;
        for (i, (dim, a, b)) in self.points().into_iter().enumerate() {
            if i as u64 % self.of != self.shard {
                continue;
            }
            // (counted per evaluated point: a test on the global index would never fire for some shards)
            if since_touch >= 1024 {
                crate::campaign::touch();
                since_touch = 0;
            }
            since_touch += 1;
            let (f, n) = self.one(dim, a, b, &mut known);
            evals += n;
            if let Some(f) = f {
                payload = Some(json!({"dim": dim, "a": a, "b": b}));
                failure = Some(f);
                break;
            }
            subs.push((a << 24) ^ b ^ ((dim.len() as u64) << 58));
        }
        CaseReport {
            payload,
            failure,
            evaluations: evals,
            sub_hashes: subs,
            known: if known > 0 { vec![("concat.inline_spill_padding".to_string(), String::new())] } else { vec![] },
            counters: vec![("known_finding_pairs", known)],
            events: vec!["bounded-exhaustive: every point of the swept value dimensions (Hex length; concat length pairs; label character; alpha index)"],
            ..Default::default()
        }
    }
    fn render(&self, _: &u8) -> Value {
        let p = self.points();
        let mut dims: BTreeMap<&str, u64> = BTreeMap::new();
        for (d, _, _) in &p {
            *dims.entry(d).or_insert(0) += 1;
        }
        json!({"points_per_dimension": dims, "this_worker": format!("every {}th point", self.of)})
    }
    fn replay(&self, payload: &Value) -> Option<Failure> {
        let strict = ValSweep { prop: self.prop, shard: 0, of: 1, thorough: false, tolerate: BTreeSet::new() };
        strict.one(payload["dim"].as_str()?, payload["a"].as_u64()?, payload["b"].as_u64()?, &mut 0).0
    }
}

#[allow(dead_code)]
fn unused(_: Rep) {}
