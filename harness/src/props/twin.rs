//! C08 (save+load) and C10 (clone): twin runs. A generated history H builds g; the twin
//! g' is load(save(g)) or g.clone(); every query must agree, and a generated
//! continuation plus the drain epilogue applied to both must yield identical
//! observation traces. C10 additionally checks independence.

use crate::calls::{render_calls, Call, Cfg};
use crate::campaign::{ddmin, CaseReport, Engine, Tier};
use crate::engine::{run_concrete, Epilogue, Failure};
use crate::gen::{self, hist_strategy, HistSeed, OpSeed, Profile};
use crate::interp::{panic_text, tmp_file, Runner};
use crate::obs::{diff, try_observe, ObsLevel};
use crate::props::gc::NullOracle;
use proptest::prelude::*;
use proptest::strategy::BoxedStrategy;
use serde::{Deserialize, Serialize};
use serde_json::{json, Value};
use std::collections::BTreeSet;
use std::hash::{Hash, Hasher};
use std::panic::{catch_unwind, AssertUnwindSafe};

#[derive(Debug, Clone, PartialEq, Eq, Serialize, Deserialize)]
pub enum TwinKind {
    SaveLoad,
    Clone,
    /// the twin is a graph built by the `prefix` calls onto which the script text is deployed
    /// (C14); the "history" are the prefix followed by the equivalent direct calls
    Script {
        text: String,
        commands: usize,
        #[serde(default)]
        prefix: Vec<Call>,
    },
}

#[derive(Debug, Clone, PartialEq, Eq, Serialize, Deserialize)]
pub struct TwinCase {
    pub hist: HistSeed,
    pub cont: Vec<OpSeed>,
    pub variant: u8,
}

/// Concrete, generator-independent form.
#[derive(Debug, Clone, PartialEq, Eq, Serialize, Deserialize)]
pub struct TwinConcrete {
    pub cfg: Cfg,
    pub history: Vec<Call>,
    pub continuation: Vec<Call>,
    /// 0 = same continuation on both; 1 = mutate the original only; 2 = mutate the twin only
    pub mode: u8,
    pub order_sel: u16,
}

pub struct TwinEngine {
    pub kind: TwinKind,
}

#[derive(Default)]
struct TwinStats {
    events: BTreeSet<&'static str>,
    groups_died_cont: u64,
    closed: Option<&'static str>,
    snapshot_differs: bool,
}

fn allocator_call(c: &Call) -> bool {
    matches!(c, Call::NextId | Call::NextIdAdd | Call::Merge { .. } | Call::ScriptNew { .. })
}

impl TwinEngine {
    fn prop(&self) -> &'static str {
        match self.kind {
            TwinKind::SaveLoad => "C08",
            TwinKind::Clone => "C10",
            TwinKind::Script { .. } => "C14",
        }
    }

    fn fail(&self, kind: &str, step: usize, detail: String) -> Failure {
        Failure { prop: self.prop().into(), kind: kind.into(), step, detail }
    }

    /// Make the twin of r's graph. Err = violation (panic / Err from save or load).
    fn make_twin(&self, r: &Runner) -> Result<Box<dyn crate::graph::G>, Failure> {
        let res = catch_unwind(AssertUnwindSafe(|| match &self.kind {
            TwinKind::Script { text, commands, prefix } => {
                let mut pre = Runner::new(r.cfg);
                for c in prefix {
                    pre.step(c);
                }
                let mut g = pre.g;
                match g.deploy(text) {
                    Ok(n) if n == *commands => Ok(g),
                    Ok(n) => Err(format!("deploy_to() returned {n} but the script has {commands} commands")),
                    Err(e) => Err(format!("deploy_to() of a well-formed script failed: {e:#}")),
                }
            }
            // a clone is made by clone(), or by clone_from() into another store (bigger, with
            // vertices of its own, also above the source's capacity) or into an older copy
            TwinKind::Clone => match r.done.len() % 4 {
                2 => {
                    let cap = r.cfg.cap * 2 + 3;
                    let mut other = crate::graph::new_graph(r.cfg.n, cap);
                    for i in [0, r.cfg.cap.saturating_sub(1), r.cfg.cap, cap - 1] {
                        other.add(i);
                    }
                    other.put(cap - 1, &crate::graph::hex_of(&[1, 2, 3]));
                    other.clone_from_dyn(&*r.g).map(|()| other).map_err(|e| format!("{e:#}"))
                }
                3 => {
                    let mut other = crate::graph::new_graph(r.cfg.n, r.cfg.cap);
                    other.add(0);
                    if r.cfg.cap > 2 {
                        other.add(r.cfg.cap - 1);
                        other.bind(0, r.cfg.cap - 1, crate::lab::Lab::Alpha(0).direct());
                        other.put(0, &crate::graph::hex_of(&[9; 12]));
                        let _ = other.next_id();
                    }
                    other.clone_from_dyn(&*r.g).map(|()| other).map_err(|e| format!("{e:#}"))
                }
                _ => Ok(r.g.clone_box()),
            },
            TwinKind::SaveLoad => {
                let p = tmp_file("twin");
                crate::interp::older_checkpoint(&p, r.cfg.n, r.done.len());
                let out = r.g.save(&p).and_then(|_| r.g.load_same(&p));
                let _ = std::fs::remove_file(&p);
                out.map_err(|e| format!("{e:#}"))
            }
        }));
        match res {
            Err(e) => Err(self.fail("twin.panic", 0, format!("making the twin panicked: {}", panic_text(e)))),
            Ok(Err(e)) => Err(self.fail("twin.error", 0, format!("making the twin failed: {e}"))),
            Ok(Ok(g)) => Ok(g),
        }
    }

    /// Execute the concrete case. `cont_src` yields continuation calls against the model.
    pub fn execute_public(
        &self,
        cfg: Cfg,
        history: &[Call],
        order_sel: u16,
        cont: &[Call],
    ) -> (Option<Failure>, Option<&'static str>, u64) {
        let mut i = 0usize;
        let mut src = |_: &Runner| {
            if i < cont.len() {
                i += 1;
                Some(Some(cont[i - 1].clone()))
            } else {
                None
            }
        };
        let mut st = TwinStats::default();
        let f = self.execute(cfg, history, 0, order_sel, &mut src, &mut st, &mut vec![]);
        (f, st.closed, st.groups_died_cont)
    }

    fn execute(
        &self,
        cfg: Cfg,
        history: &[Call],
        mode: u8,
        order_sel: u16,
        cont_src: &mut dyn FnMut(&Runner) -> Option<Option<Call>>,
        st: &mut TwinStats,
        executed_cont: &mut Vec<Call>,
    ) -> Option<Failure> {
        // 1. build g
        let mut null = NullOracle;
        let built = run_concrete_keep(cfg, history, &mut null);
        let Some(mut r1) = built else {
            st.closed = Some("history_closed");
            return None;
        };
        // non-triviality facts at the split point
        if r1.m.groups.keys().any(|g| r1.m.unread_in_group(*g) >= 1) {
            st.events.insert("split.live_group_with_unread");
        }
        if r1.m.alive().iter().any(|v| r1.m.get(*v).data.as_ref().is_some_and(|d| d.len() > 8)) {
            st.events.insert("split.heap_datum");
        }
        if r1.m.alive().iter().any(|v| r1.m.get(*v).data.is_some() && !r1.m.get(*v).unread) {
            st.events.insert("split.read_datum");
        }
        if history.iter().any(allocator_call) {
            st.events.insert("split.allocator_used");
        }
        if self.kind == TwinKind::SaveLoad {
            let p = tmp_file("sz");
            if let Ok(sz) = r1.g.save(&p) {
                if [4096usize, 65_536, 131_072, 1 << 20].contains(&sz) {
                    st.events.insert("split.image_size_exactly_a_block_multiple");
                }
            }
            let _ = std::fs::remove_file(&p);
        }
        let with_unread = r1.m.groups.keys().filter(|g| r1.m.unread_in_group(**g) >= 1).count();
        if with_unread >= 8 {
            st.events.insert("split.8plus_groups_with_unread");
        }
        if r1.m.groups_alive() >= 14 {
            st.events.insert("split.14_groups_alive");
        }
        // 2. the twin
        let g2 = match self.make_twin(&r1) {
            Ok(g) => g,
            Err(f) => return Some(f),
        };
        let mut r2 = Runner {
            cfg,
            snapshot: None,
            g: g2,
            m: r1.m.clone(),
            hist: r1.hist.clone(),
            done: r1.done.clone(),
            steps: r1.steps,
            desynced: false,
            blind: false,
        };
        if self.kind == TwinKind::SaveLoad {
            r2.m.reset_allocator();
        }
        // (i) every query agrees
        let (o1, o2) = (try_observe(&*r1.g, ObsLevel::FULL), try_observe(&*r2.g, ObsLevel::FULL));
        match (&o1, &o2) {
            (Ok(a), Ok(b)) => {
                if let Some(d) = diff(a, b) {
                    return Some(self.fail("twin.query_differs", 0, format!("right after making the twin: original vs twin: {d}")));
                }
            }
            (Err(e), _) => {
                st.closed = Some("observe_original_panicked");
                let _ = e;
                return None;
            }
            (_, Err(e)) => return Some(self.fail("twin.panic", 0, format!("querying the twin panicked: {e}"))),
        }
        // (iii) complete-state comparison as a trigger only
        let (s1, s2) = (r1.g.snapshot(), r2.g.snapshot());
        st.snapshot_differs = normalise(&s1, &self.kind) != normalise(&s2, &self.kind);
        if st.snapshot_differs {
            st.events.insert("twin.snapshot_differs(trigger)");
        }
        let before1 = o1.unwrap();
        let before2 = o2.unwrap();
        let groups_died_at_split = r1.m.groups_died;

        match mode {
            0 => {
                // (ii) same continuation + epilogue on both
                let mut step_no = 0usize;
                let quiet = order_sel % 4 == 3;
                if quiet {
                    st.events.insert("cont.quiet(nothing asked between the calls)");
                }
                let mut apply = |call: &Call, r1: &mut Runner, r2: &mut Runner, st: &mut TwinStats, executed: &mut Vec<Call>| -> Result<bool, Failure> {
                    if !r1.valid(call) {
                        return Ok(true);
                    }
                    step_no += 1;
                    executed.push(call.clone());
                    let a = r1.step(call);
                    let b = r2.step(call);
                    if a.panicked.is_some() != b.panicked.is_some() {
                        return Err(self.fail("twin.panic_differs", step_no, format!("{}: original panicked: {:?}, twin panicked: {:?}", call.render(), a.panicked, b.panicked)));
                    }
                    if a.panicked.is_some() {
                        st.closed = Some("continuation_panicked_on_both");
                        return Ok(false);
                    }
                    if a.ret != b.ret {
                        return Err(self.fail("twin.result_differs", step_no, format!("{} returned {:?} on the original and {:?} on the twin", call.render(), a.ret, b.ret)));
                    }
                    if a.keys_after != b.keys_after {
                        return Err(self.fail("twin.keys_differ", step_no, format!("after {}: keys {:?} on the original, {:?} on the twin", call.render(), a.keys_after, b.keys_after)));
                    }
                    // quiet cases (one in four): nothing is asked between the calls of the continuation —
                    // looking at everything after every call would itself refresh whatever a copy
                    // remembers (or fails to remember) between queries; the complete comparison at the
                    // end is made in any case
                    if quiet {
                        if a.desync {
                            st.closed = Some("desync_with_model");
                            return Ok(false);
                        }
                        return Ok(true);
                    }
                    let lvl = ObsLevel { inspect: true, debug: true, exports: false };
                    match (try_observe(&*r1.g, lvl), try_observe(&*r2.g, lvl)) {
                        (Ok(x), Ok(y)) => {
                            if let Some(d) = diff(&x, &y) {
                                return Err(self.fail("twin.observation_differs", step_no, format!("after {}: original vs twin: {d}", call.render())));
                            }
                        }
                        (Ok(_), Err(e)) => return Err(self.fail("twin.panic_differs", step_no, format!("after {}: observing the twin panicked: {e}", call.render()))),
                        _ => {
                            st.closed = Some("observe_original_panicked");
                            return Ok(false);
                        }
                    }
                    if a.desync {
                        st.closed = Some("desync_with_model");
                        return Ok(false);
                    }
                    Ok(true)
                };
                loop {
                    match cont_src(&r1) {
                        None => break,
                        Some(None) => continue,
                        Some(Some(call)) => {
                            if self.kind == TwinKind::SaveLoad && allocator_call(&call) && st.events.contains("split.allocator_used") {
                                continue; // the one permitted difference (allocator restart) must not show
                            }
                            if allocator_call(&call) {
                                st.events.insert("cont.allocator_call");
                            }
                            match apply(&call, &mut r1, &mut r2, st, executed_cont) {
                                Ok(true) => {}
                                Ok(false) => return None,
                                Err(f) => return Some(f),
                            }
                        }
                    }
                }
                let mut ep = Epilogue::new(&r1.m, order_sel);
                while let Some((call, _)) = ep.next(&r1.m) {
                    match apply(&call, &mut r1, &mut r2, st, &mut vec![]) {
                        Ok(true) => {}
                        Ok(false) => return None,
                        Err(f) => return Some(f),
                    }
                }
                // final complete comparison incl. exports
                if let (Ok(x), Ok(y)) = (try_observe(&*r1.g, ObsLevel::FULL), try_observe(&*r2.g, ObsLevel::FULL)) {
                    if let Some(d) = diff(&x, &y) {
                        return Some(self.fail("twin.observation_differs", step_no, format!("at the end: original vs twin: {d}")));
                    }
                }
                st.groups_died_cont = r1.m.groups_died - groups_died_at_split;
            }
            _ => {
                // independence: mutate one copy only, the other must not change and must
                // still behave as the model at the split point says
                let (mutated, untouched, untouched_before, who) = if mode == 1 {
                    (&mut r1, &mut r2, &before2, "twin")
                } else {
                    (&mut r2, &mut r1, &before1, "original")
                };
                st.events.insert(if mode == 1 { "independence.mutate_original" } else { "independence.mutate_twin" });
                let split_model = untouched.m.clone();
                loop {
                    match cont_src(mutated) {
                        None => break,
                        Some(None) => continue,
                        Some(Some(call)) => {
                            if !mutated.valid(&call) {
                                continue;
                            }
                            executed_cont.push(call.clone());
                            let s = mutated.step(&call);
                            if s.panicked.is_some() || s.desync {
                                st.closed = Some("mutation_closed");
                                break;
                            }
                        }
                    }
                }
                let mut ep = Epilogue::new(&mutated.m, order_sel);
                while let Some((call, _)) = ep.next(&mutated.m) {
                    let s = mutated.step(&call);
                    if s.panicked.is_some() || s.desync {
                        break;
                    }
                }
                st.groups_died_cont = mutated.m.groups_died - groups_died_at_split;
                match try_observe(&*untouched.g, ObsLevel::FULL) {
                    Ok(after) => {
                        if let Some(d) = diff(untouched_before, &after) {
                            return Some(self.fail("twin.not_independent", 0, format!("mutating the other copy changed the {who}: before vs after: {d}")));
                        }
                    }
                    Err(e) => return Some(self.fail("twin.not_independent", 0, format!("after mutating the other copy, querying the {who} panicked: {e}"))),
                }
                // the untouched copy still holds exactly the data the model had at the split
                untouched.m = split_model;
                let mut ep = Epilogue::new(&untouched.m, order_sel);
                while let Some((call, _)) = ep.next(&untouched.m) {
                    let s = untouched.step(&call);
                    if let Some(p) = &s.panicked {
                        return Some(self.fail("twin.not_independent", s.idx, format!("after mutating the other copy, {} on the {who} panicked: {p}", call.render())));
                    }
                    if let (crate::interp::Ret::Data(got), crate::interp::Exp::Data(o)) = (&s.ret, &s.exp) {
                        if *got != o.bytes {
                            return Some(self.fail("twin.not_independent", s.idx, format!("after mutating the other copy, {} on the {who} returned {:?}, expected {:?}", call.render(), got, o.bytes)));
                        }
                    }
                    if s.desync {
                        return Some(self.fail("twin.not_independent", s.idx, format!("after mutating the other copy, after {} the {who} has keys {:?}, expected {:?}", call.render(), s.keys_after, untouched.m.alive())));
                    }
                }
            }
        }
        None
    }

    fn run_concrete_case(&self, c: &TwinConcrete, st: &mut TwinStats) -> Option<Failure> {
        let mut i = 0usize;
        let cont = c.continuation.clone();
        let mut src = |_: &Runner| {
            if i < cont.len() {
                i += 1;
                Some(Some(cont[i - 1].clone()))
            } else {
                None
            }
        };
        self.execute(c.cfg, &c.history, c.mode, c.order_sel, &mut src, st, &mut vec![])
    }
}

/// Run concrete calls with no oracle and hand back the runner; None if the history closed.
pub fn run_concrete_keep(cfg: Cfg, calls: &[Call], _o: &mut NullOracle) -> Option<Runner> {
    let mut r = Runner::new(cfg);
    for c in calls {
        let s = r.step(c);
        if s.panicked.is_some() || s.desync || matches!(s.exp, crate::interp::Exp::Broken(_)) {
            return None;
        }
    }
    Some(r)
}

/// Snapshot with the parts that are allowed to differ removed: content of absent slots,
/// and (save+load) the allocator position.
fn normalise(s: &sodg::VerifSnapshot, kind: &TwinKind) -> sodg::VerifSnapshot {
    let mut n = s.clone();
    if *kind == TwinKind::SaveLoad {
        n.next_v = 0;
    }
    for slot in &mut n.slots {
        if slot.branch == 0 {
            slot.data.clear();
            slot.edges.clear();
            slot.persistence = 0;
            slot.heap = false;
            slot.inline = [0; 8];
        }
    }
    n
}

impl Engine for TwinEngine {
    type Case = TwinCase;

    fn name(&self) -> &'static str {
        "twin"
    }

    fn strategy(&self, _: Tier) -> BoxedStrategy<TwinCase> {
        (
            hist_strategy(60),
            proptest::collection::vec((any::<u8>(), any::<u16>(), any::<u16>(), any::<u16>(), any::<u16>()), 0..=40),
            any::<u8>(),
        )
            .prop_map(|(hist, cont, variant)| TwinCase { hist, cont, variant })
            .boxed()
    }

    fn run(&self, case: &TwinCase) -> CaseReport {
        // history H: generated like the gcmodel engine, without epilogue
        let cfg = gen::cfg_of(&case.hist);
        let profiles = [Profile::GcOrders, Profile::Overwrite, Profile::Forest, Profile::Alloc, Profile::Readd, Profile::ManyGroups, Profile::ManyGroups];
        let profile = profiles[(case.hist.profile_sel as usize * profiles.len()) >> 8];
        let mut r = Runner::new(cfg);
        let mut history = vec![];
        let mut closed = false;
        for call in gen::prelude(profile, &case.hist, cfg) {
            if r.valid(&call) {
                r.step(&call);
                history.push(call);
            }
        }
        for seed in &case.hist.ops {
            if let Some(call) = gen::resolve(seed, &r.m, profile) {
                if !r.valid(&call) {
                    continue;
                }
                let s = r.step(&call);
                history.push(call);
                if s.panicked.is_some() || s.desync || matches!(s.exp, crate::interp::Exp::Broken(_)) {
                    closed = true;
                    break;
                }
            }
        }
        if closed {
            return CaseReport { events: vec!["history_closed"], evaluations: 1, ..Default::default() };
        }
        // C08: one case in ~150 pads the image to an exact size around a block boundary by giving
        // one vertex a datum of the right length (sizes 4096, 65536, 131072 and 1 MiB, -1/0/+1)
        if self.kind == TwinKind::SaveLoad && case.variant % 96 == 5 && case.hist.profile_sel % 3 != 0 {
            if let Some(v) = r.m.alive().first().copied() {
                let probe = Call::Put(v, vec![0x5A; 9]);
                if r.valid(&probe) {
                    r.step(&probe);
                    history.push(probe);
                    let p = tmp_file("size");
                    let s9 = r.g.save(&p).unwrap_or(0);
                    let _ = std::fs::remove_file(&p);
                    const T: [usize; 4] = [4096, 65_536, 131_072, 1 << 20];
                    // mostly the two smaller sizes; the large ones make every observation expensive
                    let ti = match case.hist.order_sel % 16 { 0 => 3, 1 => 2, x if x % 2 == 0 => 1, _ => 0 };
                    let target = T[ti] + [0usize, 1, 2][(case.hist.order_sel as usize >> 4) % 3] - 1;
                    if s9 > 0 && target >= s9 + 16 {
                        let len = target - s9 + 9;
                        // sweep the sizes around the boundary: whatever framing the file format
                        // adds (block headers, trailers), one of these images hits the boundary
                        for delta in -14i64..=14 {
                            let l = (len as i64 + delta) as usize;
                            let pad = Call::Put(v, (0..l).map(|i| (i as u8) | 1).collect());
                            r.step(&pad);
                            history.push(pad);
                            if delta == 0 {
                                continue; // the exact target is judged by the full twin run below
                            }
                            let e = TwinEngine { kind: TwinKind::SaveLoad };
                            let sweep_fail = match e.make_twin(&r) {
                                Err(f) => Some(f),
                                Ok(g2) => match (try_observe(&*r.g, ObsLevel::BASIC), try_observe(&*g2, ObsLevel::BASIC)) {
                                    (Ok(a), Ok(b)) => diff(&a, &b).map(|d| e.fail("twin.query_differs", 0, format!("size sweep: original vs twin: {d}"))),
                                    _ => None,
                                },
                            };
                            if let Some(f) = sweep_fail {
                                let conc = TwinConcrete { cfg, history: history.clone(), continuation: vec![], mode: 0, order_sel: case.hist.order_sel };
                                return CaseReport {
                                    payload: Some(serde_json::to_value(&conc).unwrap()),
                                    failure: Some(f),
                                    events: vec!["split.size_sweep"],
                                    evaluations: 1,
                                    ..Default::default()
                                };
                            }
                        }
                        // back to the exact target for the full twin run
                        let pad = Call::Put(v, (0..len).map(|i| (i as u8) | 1).collect());
                        r.step(&pad);
                        history.push(pad);
                    }
                }
            }
        }
        let mode = match self.kind {
            TwinKind::SaveLoad | TwinKind::Script { .. } => 0,
            TwinKind::Clone => match case.variant % 4 {
                0 | 1 => 0,
                2 => 1,
                _ => 2,
            },
        };
        let cont_profile = if self.kind == TwinKind::Clone { Profile::Alloc } else { Profile::GcOrders };
        let cont_profile = if case.variant & 0x10 != 0 { Profile::GcOrders } else { cont_profile };
        let mut i = 0usize;
        let seeds = case.cont.clone();
        let mut src = |r: &Runner| {
            if i < seeds.len() {
                i += 1;
                Some(gen::resolve(&seeds[i - 1], &r.m, cont_profile))
            } else {
                None
            }
        };
        let mut st = TwinStats::default();
        let mut executed = vec![];
        let failure = self.execute(cfg, &history, mode, case.hist.order_sel, &mut src, &mut st, &mut executed);
        let conc = TwinConcrete { cfg, history, continuation: executed, mode, order_sel: case.hist.order_sel };
        let e = |s: &str| st.events.contains(s);
        let nontrivial = st.closed.is_none()
            && e("split.live_group_with_unread")
            && e("split.heap_datum")
            && st.groups_died_cont >= 1
            && (self.kind == TwinKind::SaveLoad || mode != 0 || e("cont.allocator_call"));
        let mut hs = std::collections::hash_map::DefaultHasher::new();
        (conc.cfg, &conc.history, &conc.continuation, conc.mode).hash(&mut hs);
        let mut events: Vec<&'static str> = st.events.iter().copied().collect();
        if let Some(c) = st.closed {
            events.push(c);
        }
        if st.groups_died_cont >= 1 {
            events.push("cont.group_died");
        }
        CaseReport {
            payload: failure.as_ref().map(|_| serde_json::to_value(&conc).unwrap()),
            failure,
            nontrivial,
            hash: hs.finish(),
            events,
            counters: vec![("history_calls", conc.history.len() as u64), ("continuation_calls", conc.continuation.len() as u64)],
            evaluations: 1,
            ..Default::default()
        }
    }

    fn render(&self, case: &TwinCase) -> Value {
        let cfg = gen::cfg_of(&case.hist);
        let mut null = NullOracle;
        let out = crate::engine::run_seeded(&case.hist, &[Profile::GcOrders, Profile::Overwrite, Profile::Forest, Profile::Alloc, Profile::Readd], &mut null, None);
        let mut s = render_calls(cfg, &out.calls[..out.gen_calls.min(out.calls.len())]);
        if s.len() > 1200 {
            s = s.chars().take(1200).collect::<String>() + " …";
        }
        json!({"history": s, "twin": format!("{:?}", self.kind), "continuation_seeds": case.cont.len(), "variant": case.variant})
    }

    fn minimise(&self, payload: Value, kind: &str) -> Value {
        let Ok(c) = serde_json::from_value::<TwinConcrete>(payload.clone()) else {
            return payload;
        };
        let mut budget = 3000u64;
        let fails = |c: &TwinConcrete| self.run_concrete_case(c, &mut TwinStats::default()).is_some_and(|f| f.kind == kind);
        if !fails(&c) {
            return payload;
        }
        let mut cur = c.clone();
        let mut p1 = |h: &[Call]| fails(&TwinConcrete { history: h.to_vec(), ..cur.clone() });
        let h = ddmin(cur.history.clone(), &mut p1, &mut budget);
        cur.history = h;
        let mut p2 = |k: &[Call]| fails(&TwinConcrete { continuation: k.to_vec(), ..cur.clone() });
        let k = ddmin(cur.continuation.clone(), &mut p2, &mut budget);
        cur.continuation = k;
        let mut v = serde_json::to_value(&cur).unwrap();
        v["rendered"] = json!(format!("{} || twin={:?} mode={} || continuation: {}", render_calls(cur.cfg, &cur.history), self.kind, cur.mode,
            cur.continuation.iter().map(Call::render).collect::<Vec<_>>().join("; ")));
        v
    }

    fn replay(&self, payload: &Value) -> Option<Failure> {
        let c: TwinConcrete = serde_json::from_value(payload.clone()).ok()?;
        self.run_concrete_case(&c, &mut TwinStats::default())
    }
}

#[allow(dead_code)]
fn unused(cfg: Cfg, calls: &[Call]) {
    let _ = run_concrete(cfg, calls, &mut NullOracle, None);
}
