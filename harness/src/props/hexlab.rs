//! C15 (Hex is its byte string), C16 (concat), C17 (labels): bounded-exhaustive index /
//! length / text spaces with generated contents; the oracle is the same operation on a
//! byte slice, plain concatenation, and the documented text grammar.

use crate::campaign::{CaseReport, Engine, Tier};
use crate::engine::Failure;
use crate::graph::new_graph;
use proptest::prelude::*;
use proptest::strategy::BoxedStrategy;
use serde::{Deserialize, Serialize};
use serde_json::{json, Value};
use sodg::{Hex, Label};
use std::collections::{BTreeMap, BTreeSet};
use std::panic::{catch_unwind, AssertUnwindSafe};
use std::str::FromStr;

pub(crate) fn caught<T>(f: impl FnOnce() -> T) -> Result<T, ()> {
    catch_unwind(AssertUnwindSafe(f)).map_err(|_| ())
}

pub(crate) fn hx(b: &[u8]) -> String {
    crate::calls::hexs(b)
}

#[derive(Debug, Clone, Copy, PartialEq, Eq, Serialize, Deserialize)]
pub enum Rep {
    Canonical,
    Heap,
    InlinePadded,
}

pub const REPS: [Rep; 3] = [Rep::Canonical, Rep::Heap, Rep::InlinePadded];

pub fn make(rep: Rep, bytes: &[u8], pad: &[u8; 8]) -> Option<Hex> {
    match rep {
        Rep::Canonical => Some(Hex::from_slice(bytes)),
        Rep::Heap => Some(Hex::Vector(bytes.to_vec())),
        Rep::InlinePadded => {
            if bytes.len() > 8 {
                return None;
            }
            let mut a = *pad;
            for x in a.iter_mut() {
                if *x == 0 {
                    *x = 0xA5; // padding must be visibly non-zero
                }
            }
            a[..bytes.len()].copy_from_slice(bytes);
            Some(Hex::Bytes(a, bytes.len()))
        }
    }
}

pub(crate) fn repr_of(h: &Hex) -> (bool, Vec<u8>, usize) {
    match h {
        Hex::Vector(v) => (true, v.clone(), v.len()),
        Hex::Bytes(a, l) => (false, a.to_vec(), *l),
    }
}

// =============================================================================== C15

#[derive(Debug, Clone, PartialEq, Eq, Serialize, Deserialize)]
pub struct HexCase {
    pub content: Vec<u8>,
    pub pad: [u8; 8],
    pub ints: Vec<i64>,
    pub floats: Vec<u64>,
    /// long byte strings (13 bytes .. > 64 KiB): (length selector, content seed, index seeds)
    #[serde(default)]
    pub long: Vec<(u16, u8, Vec<u32>)>,
}

pub struct HexEngine;

const IMAX: usize = 14;

struct Ck<'a> {
    fails: Vec<(String, String)>,
    evals: u64,
    ctx: &'a str,
}

impl Ck<'_> {
    fn eq<T: PartialEq + std::fmt::Debug>(&mut self, kind: &str, what: &str, got: Result<T, ()>, want: Result<T, ()>) {
        self.evals += 1;
        if got != want && self.fails.len() < 4 {
            let show = |r: &Result<T, ()>| match r {
                Ok(v) => format!("{v:?}"),
                Err(()) => "panic".to_string(),
            };
            self.fails.push((kind.to_string(), format!("{}: {what} gives {}, the byte slice gives {}", self.ctx, show(&got), show(&want))));
        }
    }
}

fn check_hex(h: &Hex, bytes: &[u8], ctx: &str) -> (Vec<(String, String)>, u64) {
    let idxs: Vec<usize> = (0..=IMAX).chain([usize::MAX - 1, usize::MAX]).collect();
    check_hex_at(h, bytes, ctx, &idxs)
}

/// every accessor of one value against the byte slice, the index/range space spanned by `idxs`
pub(crate) fn check_hex_at(h: &Hex, bytes: &[u8], ctx: &str, idxs: &[usize]) -> (Vec<(String, String)>, u64) {
    let mut c = Ck { fails: vec![], evals: 0, ctx };
    let b = bytes;
    c.eq("hex.bytes", "bytes()", caught(|| h.bytes().to_vec()), Ok(b.to_vec()));
    c.eq("hex.len", "len()", caught(|| h.len()), Ok(b.len()));
    c.eq("hex.is_empty", "is_empty()", caught(|| h.is_empty()), Ok(b.is_empty()));
    c.eq("hex.to_vec", "to_vec()", caught(|| h.to_vec()), Ok(b.to_vec()));
    let want_print = if b.is_empty() { "--".to_string() } else { b.iter().map(|x| format!("{x:02X}")).collect::<Vec<_>>().join("-") };
    c.eq("hex.print", "print()", caught(|| h.print()), Ok(want_print.clone()));
    c.eq("hex.print", "Display", caught(|| format!("{h}")), Ok(want_print.clone()));
    c.eq("hex.print", "Debug", caught(|| format!("{h:?}")), Ok(want_print.clone()));
    c.eq("hex.full_range", "[..]", caught(|| h[..].to_vec()), Ok(b.to_vec()));
    c.eq("hex.clone", "clone() == h", caught(|| h.clone() == *h && h.clone().bytes() == b), Ok(true));
    c.eq("hex.from_vec", "from_vec(bytes) == h", caught(|| Hex::from_vec(b.to_vec()) == *h && *h == Hex::from_vec(b.to_vec())), Ok(true));
    c.eq("hex.from_slice", "from_slice(bytes) == h", caught(|| Hex::from_slice(b) == *h), Ok(true));
    if let Ok(txt) = std::str::from_utf8(b) {
        c.eq("hex.from_str_bytes", "from_str_bytes(text) == h", caught(|| Hex::from_str_bytes(txt) == *h), Ok(true));
    }
    c.eq("hex.empty", "== Hex::empty() iff no bytes", caught(|| *h == Hex::empty()), Ok(b.is_empty()));
    c.eq("hex.from_str_print", "from_str(print(h)) == h", caught(|| Hex::from_str(&h.print()).map(|x| x == *h && x.bytes() == b).unwrap_or(false)), Ok(true));
    c.eq("hex.to_utf8", "to_utf8()", caught(|| h.to_utf8().ok()), Ok(String::from_utf8(b.to_vec()).ok()));
    let want_i = if b.len() == 8 { Some(i64::from_be_bytes(b.try_into().unwrap())) } else { None };
    c.eq("hex.to_i64", "to_i64()", caught(|| h.to_i64().ok()), Ok(want_i));
    let want_f = if b.len() == 8 { Some(f64::from_be_bytes(b.try_into().unwrap()).to_bits()) } else { None };
    c.eq("hex.to_f64", "to_f64() bits", caught(|| h.to_f64().ok().map(f64::to_bits)), Ok(want_f));
    if !b.is_empty() {
        c.eq("hex.to_bool", "to_bool()", caught(|| h.to_bool()), Ok(b[0] == 1));
    }
    let imax = idxs.iter().copied().filter(|i| *i < usize::MAX - 1).max().unwrap_or(0);
    for &i in idxs {
        c.eq("hex.index", &format!("[{i}]"), caught(|| h[i]), caught(|| b[i]));
        c.eq("hex.byte_at", &format!("byte_at({i})"), caught(|| h.byte_at(i)), caught(|| b[i]));
        c.eq("hex.tail", &format!("tail({i})"), caught(|| h.tail(i).bytes().to_vec()), caught(|| b[i..].to_vec()));
        c.eq("hex.range_from", &format!("[{i}..]"), caught(|| h[i..].to_vec()), caught(|| b[i..].to_vec()));
        c.eq("hex.range_to", &format!("[..{i}]"), caught(|| h[..i].to_vec()), caught(|| b[..i].to_vec()));
        c.eq("hex.range_to_inclusive", &format!("[..={i}]"), caught(|| h[..=i].to_vec()), caught(|| b[..=i].to_vec()));
        // IndexMut
        let got = caught(|| {
            let mut m = h.clone();
            m[i] = m[i].wrapping_add(0x5B);
            m.bytes().to_vec()
        });
        let want = caught(|| {
            let mut m = b.to_vec();
            m[i] = m[i].wrapping_add(0x5B);
            m
        });
        c.eq("hex.index_mut", &format!("[{i}] = x"), got, want);
        for &j in idxs {
            c.eq("hex.range", &format!("[{i}..{j}]"), caught(|| h[i..j].to_vec()), caught(|| b[i..j].to_vec()));
            c.eq("hex.range_inclusive", &format!("[{i}..={j}]"), caught(|| h[i..=j].to_vec()), caught(|| b[i..=j].to_vec()));
            // a RangeInclusive that was iterated to exhaustion is still a range value (it denotes j+1..j+1)
            if i <= j && j <= imax {
                let mut r = i..=j;
                for _ in r.by_ref() {}
                let (r1, r2) = (r.clone(), r);
                c.eq("hex.range_inclusive_exhausted", &format!("[exhausted {i}..={j}]"), caught(|| h[r1].to_vec()), caught(|| b[r2].to_vec()));
            }
        }
    }
    (c.fails, c.evals)
}

impl HexEngine {
    fn check_case(case: &HexCase) -> (Vec<(String, String)>, u64, Vec<u64>) {
        let mut fails = vec![];
        let mut evals = 0u64;
        let mut subs = vec![];
        let content = &case.content;
        for len in 0..=12usize.min(content.len()) {
            let bytes = &content[..len];
            let mut made: Vec<(Rep, Hex)> = vec![];
            for rep in REPS {
                if let Some(h) = make(rep, bytes, &case.pad) {
                    let ctx = format!("Hex {rep:?} of {} ({} bytes)", hx(bytes), len);
                    let (f, e) = check_hex(&h, bytes, &ctx);
                    fails.extend(f);
                    evals += e;
                    made.push((rep, h));
                    let mut hs = std::collections::hash_map::DefaultHasher::new();
                    use std::hash::{Hash, Hasher};
                    (bytes, rep as u8, case.pad).hash(&mut hs);
                    subs.push(hs.finish());
                }
            }
            // representation independence of equality
            for (ra, a) in &made {
                for (rb, b) in &made {
                    evals += 1;
                    if caught(|| a == b) != Ok(true) {
                        fails.push(("hex.eq".into(), format!("{ra:?} and {rb:?} of the same bytes {} are not equal", hx(bytes))));
                    }
                    #[allow(clippy::nonminimal_bool)]
                    if caught(|| a != b || a.ne(b)) != Ok(false) {
                        fails.push(("hex.eq".into(), format!("{ra:?} != {rb:?} holds for the same bytes {} (while == holds too)", hx(bytes))));
                    }
                }
                // every single-bit difference must break equality (both operand orders)
                for pos in 0..len {
                    for bit in 0..8 {
                        let mut other = bytes.to_vec();
                        other[pos] ^= 1 << bit;
                        for rep in REPS {
                            if let Some(o) = make(rep, &other, &case.pad) {
                                evals += 1;
                                if caught(|| *a == o || o == *a) != Ok(false) {
                                    fails.push(("hex.eq".into(), format!("{ra:?} of {} equals {rep:?} of {} (byte {pos}, bit {bit} differs)", hx(bytes), hx(&other))));
                                }
                            }
                        }
                    }
                }
                // differs from a byte string that differs in the last byte / in length
                if len > 0 {
                    let mut other = bytes.to_vec();
                    other[len - 1] ^= 0x01;
                    for rep in REPS {
                        if let Some(o) = make(rep, &other, &case.pad) {
                            evals += 1;
                            if caught(|| *a == o) != Ok(false) {
                                fails.push(("hex.eq".into(), format!("{ra:?} of {} equals {rep:?} of {}", hx(bytes), hx(&other))));
                            }
                        }
                    }
                    for rep in REPS {
                        if let Some(o) = make(rep, &bytes[..len - 1], &case.pad) {
                            evals += 1;
                            if caught(|| *a == o) != Ok(false) {
                                fails.push(("hex.eq".into(), format!("{ra:?} of {} equals {rep:?} of its prefix", hx(bytes))));
                            }
                        }
                    }
                }
            }
        }
        // long byte strings: sampled lengths (incl. 255/256/257 and 65535/65536/65537) and
        // sampled indices/ranges around 0, the middle, len-1, len, len+1 and the 8/16/32-bit boundaries
        for (lsel, cseed, idxs) in &case.long {
            const LENS: [usize; 14] = [13, 15, 16, 17, 31, 64, 200, 255, 256, 257, 1000, 65_535, 65_536, 65_537];
            let len = LENS[(*lsel as usize) % LENS.len()] + if lsel % 3 == 0 { (*lsel as usize >> 4) % 7 } else { 0 };
            let bytes: Vec<u8> = (0..len).map(|i| (i as u8).wrapping_mul(31).wrapping_add(*cseed).wrapping_add((i >> 8) as u8)).collect();
            let mut points: Vec<usize> = vec![0, 1, 7, 8, 9, len / 2, len - 1, len, len + 1, 255, 256, 257, 65_535, 65_536, usize::MAX];
            points.extend(idxs.iter().map(|x| (*x as usize) % (len + 3)));
            for rep in [Rep::Canonical, Rep::Heap] {
                let Some(h) = make(rep, &bytes, &case.pad) else { continue };
                let ctx = format!("Hex {rep:?} of {len} generated bytes");
                let mut c = Ck { fails: vec![], evals: 0, ctx: &ctx };
                let b = bytes.as_slice();
                c.eq("hex.long.len", "len()", caught(|| h.len()), Ok(b.len()));
                c.eq("hex.long.bytes", "bytes()", caught(|| h.bytes() == b), Ok(true));
                c.eq("hex.long.to_vec", "to_vec()", caught(|| h.to_vec() == b), Ok(true));
                let want_print = b.iter().map(|x| format!("{x:02X}")).collect::<Vec<_>>().join("-");
                c.eq("hex.long.print", "print()", caught(|| h.print() == want_print), Ok(true));
                c.eq("hex.long.from_str_print", "from_str(print(h)) == h", caught(|| Hex::from_str(&h.print()).map(|x| x == h && x.bytes() == b).unwrap_or(false)), Ok(true));
                c.eq("hex.long.to_i64", "to_i64() is Err", caught(|| h.to_i64().is_err()), Ok(true));
                c.eq("hex.long.to_f64", "to_f64() is Err", caught(|| h.to_f64().is_err()), Ok(true));
                c.eq("hex.long.eq", "== heap of the same bytes", caught(|| h == Hex::Vector(b.to_vec())), Ok(true));
                let mut other = b.to_vec();
                let last = other.len() - 1;
                other[last] ^= 0x80;
                c.eq("hex.long.eq", "!= bytes differing in the last byte", caught(|| h == Hex::from_vec(other.clone())), Ok(false));
                c.eq("hex.long.eq", "!= its prefix", caught(|| h == Hex::from_slice(&b[..last])), Ok(false));
                for &i in &points {
                    c.eq("hex.long.index", &format!("[{i}]"), caught(|| h[i]), caught(|| b[i]));
                    c.eq("hex.long.byte_at", &format!("byte_at({i})"), caught(|| h.byte_at(i)), caught(|| b[i]));
                    c.eq("hex.long.tail", &format!("tail({i})"), caught(|| h.tail(i).bytes().to_vec()), caught(|| b[i..].to_vec()));
                    c.eq("hex.long.range_from", &format!("[{i}..]"), caught(|| h[i..].to_vec()), caught(|| b[i..].to_vec()));
                    c.eq("hex.long.range_to", &format!("[..{i}]"), caught(|| h[..i].to_vec()), caught(|| b[..i].to_vec()));
                    c.eq("hex.long.range_to_inclusive", &format!("[..={i}]"), caught(|| h[..=i].to_vec()), caught(|| b[..=i].to_vec()));
                    let got = caught(|| {
                        let mut m = h.clone();
                        m[i] = m[i].wrapping_add(0x5B);
                        m.bytes().to_vec()
                    });
                    let want = caught(|| {
                        let mut m = b.to_vec();
                        m[i] = m[i].wrapping_add(0x5B);
                        m
                    });
                    c.eq("hex.long.index_mut", &format!("[{i}] = x"), got, want);
                }
                for w in points.windows(2).chain(std::iter::once(&[len, 0][..])) {
                    for (i, j) in [(w[0], w[1]), (w[1], w[0])] {
                        c.eq("hex.long.range", &format!("[{i}..{j}]"), caught(|| h[i..j].to_vec()), caught(|| b[i..j].to_vec()));
                        c.eq("hex.long.range_inclusive", &format!("[{i}..={j}]"), caught(|| h[i..=j].to_vec()), caught(|| b[i..=j].to_vec()));
                    }
                }
                fails.extend(c.fails);
                evals += c.evals;
                use std::hash::{Hash, Hasher};
                let mut hs = std::collections::hash_map::DefaultHasher::new();
                (len, cseed, rep as u8, &points).hash(&mut hs);
                subs.push(hs.finish());
            }
        }
        // conversions
        for &i in &case.ints {
            evals += 6;
            let h = Hex::from(i);
            if h.bytes() != i.to_be_bytes() || h.to_i64().ok() != Some(i) {
                fails.push(("hex.from_i64".into(), format!("Hex::from({i}_i64) = {h}, to_i64 = {:?}", h.to_i64().ok())));
            }
            let hv = Hex::Vector(i.to_be_bytes().to_vec());
            if hv.to_i64().ok() != Some(i) {
                fails.push(("hex.to_i64".into(), format!("heap Hex of {i}: to_i64 = {:?}", hv.to_i64().ok())));
            }
            if Hex::from(i as i32).bytes() != (i as i32).to_be_bytes() {
                fails.push(("hex.from_i32".into(), format!("Hex::from({}_i32)", i as i32)));
            }
            if Hex::from(i as i16).bytes() != (i as i16).to_be_bytes() {
                fails.push(("hex.from_i16".into(), format!("Hex::from({}_i16)", i as i16)));
            }
            if Hex::from(i as i8).bytes() != (i as i8).to_be_bytes() {
                fails.push(("hex.from_i8".into(), format!("Hex::from({}_i8)", i as i8)));
            }
            let bo = i & 1 == 1;
            if Hex::from(bo).bytes() != [u8::from(bo)] || Hex::from(bo).to_bool() != bo {
                fails.push(("hex.from_bool".into(), format!("Hex::from({bo})")));
            }
        }
        for &bits in &case.floats {
            evals += 3;
            let f = f64::from_bits(bits);
            let h = Hex::from(f);
            if h.bytes() != bits.to_be_bytes() || h.to_f64().ok().map(f64::to_bits) != Some(bits) {
                fails.push(("hex.from_f64".into(), format!("Hex::from(f64 bits {bits:#018x}) = {h}, back = {:?}", h.to_f64().ok().map(f64::to_bits))));
            }
            let hv = Hex::Vector(bits.to_be_bytes().to_vec());
            if hv.to_f64().ok().map(f64::to_bits) != Some(bits) {
                fails.push(("hex.to_f64".into(), format!("heap Hex of f64 bits {bits:#018x}")));
            }
            let f3 = f32::from_bits(bits as u32);
            if Hex::from(f3).bytes() != (bits as u32).to_be_bytes() {
                fails.push(("hex.from_f32".into(), format!("Hex::from(f32 bits {:#010x})", bits as u32)));
            }
        }
        (fails, evals, subs)
    }
}

fn special_ints() -> Vec<i64> {
    vec![0, 1, -1, i64::MIN, i64::MAX, 42, 255, 256, -256, 0x0102_0304_0506_0708]
}
fn special_floats() -> Vec<u64> {
    vec![
        0.0f64.to_bits(), (-0.0f64).to_bits(), f64::INFINITY.to_bits(), f64::NEG_INFINITY.to_bits(),
        f64::NAN.to_bits(), 0x7ff8_0000_dead_beef, 0xfff0_0000_0000_0001, f64::MIN_POSITIVE.to_bits(),
        f64::MAX.to_bits(), f64::MIN.to_bits(), 1u64, std::f64::consts::PI.to_bits(),
    ]
}

impl Engine for HexEngine {
    type Case = HexCase;
    fn name(&self) -> &'static str {
        "hexenum"
    }
    fn strategy(&self, _: Tier) -> BoxedStrategy<HexCase> {
        (
            proptest::collection::vec(any::<u8>(), 12),
            any::<[u8; 8]>(),
            proptest::collection::vec(any::<i64>(), 4),
            proptest::collection::vec(any::<u64>(), 4),
            proptest::collection::vec((any::<u16>(), any::<u8>(), proptest::collection::vec(any::<u32>(), 6)), 3),
        )
            .prop_map(|(content, pad, mut ints, mut floats, long)| {
                ints.extend(special_ints());
                floats.extend(special_floats());
                HexCase { content, pad, ints, floats, long }
            })
            .boxed()
    }
    fn run(&self, case: &HexCase) -> CaseReport {
        let (fails, evals, subs) = Self::check_case(case);
        let failure = fails.first().map(|(k, d)| Failure { prop: "C15".into(), kind: k.clone(), step: 0, detail: d.clone() });
        CaseReport {
            payload: failure.as_ref().map(|_| serde_json::to_value(case).unwrap()),
            failure,
            nontrivial: false,
            hash: 0,
            evaluations: evals,
            sub_hashes: subs,
            events: vec!["all lengths 0..=12 x 3 representations x all indices/ranges 0..=14 and usize::MAX"],
            ..Default::default()
        }
    }
    fn render(&self, case: &HexCase) -> Value {
        json!({"content": hx(&case.content), "padding": hx(&case.pad), "ints": case.ints, "float_bits": case.floats,
               "long_strings(length selector, content seed, extra indices)": case.long})
    }
    fn replay(&self, payload: &Value) -> Option<Failure> {
        let case: HexCase = serde_json::from_value(payload.clone()).ok()?;
        self.run(&case).failure
    }
}

// =============================================================================== C16

#[derive(Debug, Clone, PartialEq, Eq, Serialize, Deserialize)]
pub struct ConcatCase {
    pub a: Vec<u8>,
    pub b: Vec<u8>,
    pub pad_a: [u8; 8],
    pub pad_b: [u8; 8],
    /// pairs of long operand lengths (selectors)
    #[serde(default)]
    pub long: Vec<(u16, u16)>,
}

pub struct ConcatEngine {
    pub tolerate: BTreeSet<String>,
}

impl ConcatEngine {
    /// classify one concat result; None = correct
    pub(crate) fn judge(a: &Hex, b: &Hex, r: &Hex, ab: &[u8], bb: &[u8]) -> Option<(String, String)> {
        let mut want = ab.to_vec();
        want.extend_from_slice(bb);
        if r.bytes() == want.as_slice() && r.len() == want.len() {
            return None;
        }
        // the one known wrong result: inline receiver spills and drags its padding along
        if let Hex::Bytes(arr, l) = a {
            if *l < 8 && l + bb.len() > 8 {
                let mut bad = ab.to_vec();
                bad.extend_from_slice(&arr[*l..8]);
                bad.extend_from_slice(bb);
                if r.bytes() == bad.as_slice() {
                    return Some(("concat.inline_spill_padding".into(), format!(
                        "inline {} ({} bytes, array {}) .concat({}) = {} — the {} unused array bytes are copied into the result",
                        hx(ab), l, hx(arr), hx(bb), hx(r.bytes()), 8 - l)));
                }
            }
        }
        let _ = b;
        Some(("concat.wrong_bytes".into(), format!("{}.concat({}) = {}, expected {}", hx(ab), hx(bb), hx(r.bytes()), hx(&want))))
    }
}

impl Engine for ConcatEngine {
    type Case = ConcatCase;
    fn name(&self) -> &'static str {
        "concatenum"
    }
    fn strategy(&self, _: Tier) -> BoxedStrategy<ConcatCase> {
        (
            proptest::collection::vec(any::<u8>(), 12),
            proptest::collection::vec(any::<u8>(), 12),
            any::<[u8; 8]>(),
            any::<[u8; 8]>(),
        )
            .prop_map(|(a, b, pad_a, pad_b)| ConcatCase { a, b, pad_a, pad_b, long: vec![] })
            .boxed()
            .prop_flat_map(|c| (Just(c), proptest::collection::vec((any::<u16>(), any::<u16>()), 4)))
            .prop_map(|(mut c, long)| {
                c.long = long;
                c
            })
            .boxed()
    }
    fn run(&self, case: &ConcatCase) -> CaseReport {
        let mut evals = 0u64;
        let mut known = vec![];
        let mut failure = None;
        let mut subs = vec![];
        // the generated contents, then all-zero and all-0xFF contents on either side
        let zeros = vec![0u8; 12];
        let ffs = vec![0xFFu8; 12];
        let contents: [(&[u8], &[u8]); 5] = [(&case.a, &case.b), (&zeros, &case.b), (&case.a, &zeros), (&zeros, &zeros), (&ffs, &zeros)];
        'outer: for (ca, cb) in contents {
          for la in 0..=12usize.min(ca.len()) {
            for lb in 0..=12usize.min(cb.len()) {
                for ra in REPS {
                    for rb in REPS {
                        let (ab, bb) = (&ca[..la], &cb[..lb]);
                        let (Some(a), Some(b)) = (make(ra, ab, &case.pad_a), make(rb, bb, &case.pad_b)) else {
                            continue;
                        };
                        let (a0, b0) = (repr_of(&a), repr_of(&b));
                        evals += 1;
                        let r = caught(|| a.concat(&b));
                        let verdict = match &r {
                            Err(()) => Some(("concat.panic".to_string(), format!("{ra:?} {}.concat({rb:?} {}) panicked", hx(ab), hx(bb)))),
                            Ok(r) => Self::judge(&a, &b, r, ab, bb),
                        };
                        let verdict = verdict.or_else(|| {
                            if repr_of(&a) != a0 || repr_of(&b) != b0 {
                                Some(("concat.operand_changed".to_string(), format!("{}.concat({}) changed an operand", hx(ab), hx(bb))))
                            } else {
                                None
                            }
                        });
                        if verdict.is_none() && (la + lb > 8 || la == 8 || lb == 8) {
                            use std::hash::{Hash, Hasher};
                            let mut hs = std::collections::hash_map::DefaultHasher::new();
                            (ab, bb, ra as u8, rb as u8).hash(&mut hs);
                            subs.push(hs.finish());
                        }
                        if let Some((k, d)) = verdict {
                            if self.tolerate.contains(&k) {
                                if known.len() < 3 {
                                    known.push((k, d));
                                } else {
                                    known.push((k, String::new()));
                                }
                            } else {
                                failure = Some(Failure { prop: "C16".into(), kind: k, step: 0, detail: format!("{ra:?}/{rb:?}: {d}") });
                                break 'outer;
                            }
                        }
                    }
                }
            }
          }
        }
        // long operands: sampled lengths on both sides (13 .. > 64 KiB) against short and long ones
        if failure.is_none() {
            const LENS: [usize; 16] = [0, 1, 7, 8, 9, 13, 16, 31, 255, 256, 257, 1000, 4096, 65_535, 65_536, 65_537];
            'long: for (sa, sb) in &case.long {
                let (la, lb) = (LENS[*sa as usize % 16] + (*sa as usize >> 8) % 3, LENS[*sb as usize % 16] + (*sb as usize >> 8) % 3);
                let ab: Vec<u8> = (0..la).map(|i| (i as u8).wrapping_mul(7).wrapping_add(case.a[0]).wrapping_add((i >> 8) as u8)).collect();
                let bb: Vec<u8> = (0..lb).map(|i| (i as u8).wrapping_mul(13).wrapping_add(case.b[0]).wrapping_add((i >> 8) as u8) | 1).collect();
                for ra in REPS {
                    for rb in REPS {
                        let (Some(a), Some(b)) = (make(ra, &ab, &case.pad_a), make(rb, &bb, &case.pad_b)) else {
                            continue;
                        };
                        evals += 1;
                        let verdict = match caught(|| a.concat(&b)) {
                            Err(()) => Some(("concat.panic".to_string(), format!("{ra:?} of {la} bytes .concat({rb:?} of {lb} bytes) panicked"))),
                            Ok(r) => Self::judge(&a, &b, &r, &ab, &bb).map(|(k, d)| (k, d.chars().take(400).collect::<String>())),
                        };
                        match verdict {
                            None => {
                                use std::hash::{Hash, Hasher};
                                let mut hs = std::collections::hash_map::DefaultHasher::new();
                                (la, lb, ra as u8, rb as u8, case.a[0], case.b[0]).hash(&mut hs);
                                subs.push(hs.finish());
                            }
                            Some((k, d)) => {
                                if self.tolerate.contains(&k) {
                                    known.push((k, String::new()));
                                } else {
                                    failure = Some(Failure { prop: "C16".into(), kind: k, step: 0, detail: format!("{ra:?}/{rb:?} ({la}+{lb} bytes): {d}") });
                                    break 'long;
                                }
                            }
                        }
                    }
                }
            }
        }
        // one known-hit entry per case is enough for the counters
        let known_n = known.len() as u64;
        known.truncate(1);
        CaseReport {
            payload: failure.as_ref().map(|_| serde_json::to_value(case).unwrap()),
            failure,
            evaluations: evals,
            sub_hashes: subs,
            known,
            counters: vec![("known_finding_pairs", known_n)],
            events: vec!["all (len a, len b) in 0..=12 x 0..=12, 3 x 3 representations"],
            ..Default::default()
        }
    }
    fn render(&self, case: &ConcatCase) -> Value {
        json!({"a": hx(&case.a), "b": hx(&case.b), "pad_a": hx(&case.pad_a), "pad_b": hx(&case.pad_b), "long_length_selectors": case.long})
    }
    fn replay(&self, payload: &Value) -> Option<Failure> {
        let case: ConcatCase = serde_json::from_value(payload.clone()).ok()?;
        // in replay nothing is tolerated
        ConcatEngine { tolerate: BTreeSet::new() }.run(&case).failure
    }
}

// =============================================================================== C17

const ALPHABET: [char; 14] = ['a', 'Z', '7', '+', '-', '_', 'α', 'ρ', 'φ', '𝜑', '0', '1', '9', ' '];

#[derive(Debug, Clone, Copy, PartialEq, Eq)]
enum TextClass {
    /// must parse, print back to itself, and be injective
    InDomain,
    /// must be rejected with Err
    MustErr,
    Unspecified,
}

fn classify_text(t: &str) -> TextClass {
    let n = t.chars().count();
    if n == 0 || t.contains(' ') {
        return TextClass::Unspecified;
    }
    if let Some(tail) = t.strip_prefix('α') {
        let digits = !tail.is_empty() && tail.chars().all(|c| c.is_ascii_digit());
        if digits {
            let canonical = tail == "0" || !tail.starts_with('0');
            match tail.parse::<usize>() {
                Ok(_) if canonical && n <= 8 => TextClass::InDomain,
                Ok(_) => TextClass::Unspecified, // leading zeros, or a valid index longer than 8 characters
                Err(_) => TextClass::MustErr,   // overflow
            }
        } else if tail.starts_with('+') && tail.len() > 1 && tail[1..].chars().all(|c| c.is_ascii_digit()) {
            TextClass::Unspecified // "+5" is accepted by usize::from_str; the statement is silent
        } else {
            TextClass::MustErr // malformed index
        }
    } else if n > 8 {
        TextClass::MustErr
    } else {
        TextClass::InDomain
    }
}

#[derive(Debug, Clone, PartialEq, Eq, Serialize, Deserialize)]
pub enum LabCase {
    /// enumerate all texts of length 0..=depth over the fixed alphabet
    Enumerate(u8),
    Texts(Vec<String>),
}

pub struct LabelEngine;

impl LabelEngine {
    pub(crate) fn check_text(t: &str, seen: &mut BTreeMap<Label, String>, evals: &mut u64, counts: &mut [u64; 3]) -> Option<(String, String)> {
        *evals += 1;
        let class = classify_text(t);
        let parsed = match caught(|| Label::from_str(t)) {
            Ok(p) => p,
            Err(()) => return Some(("label.parse_panics".into(), format!("Label::from_str({t:?}) panicked"))),
        };
        match class {
            TextClass::Unspecified => {
                counts[2] += 1;
                None
            }
            TextClass::MustErr => {
                counts[1] += 1;
                if parsed.is_ok() {
                    Some(("label.accepts_invalid".into(), format!("Label::from_str({t:?}) = Ok({:?}), expected Err", parsed.unwrap())))
                } else {
                    None
                }
            }
            TextClass::InDomain => {
                counts[0] += 1;
                let Ok(l) = parsed else {
                    return Some(("label.rejects_valid".into(), format!("Label::from_str({t:?}) = Err({})", parsed.err().unwrap())));
                };
                let back = l.to_string();
                if back != t {
                    return Some(("label.text_roundtrip".into(), format!("from_str({t:?}).to_string() = {back:?}")));
                }
                if format!("{l:?}") != t {
                    return Some(("label.text_roundtrip".into(), format!("Debug of from_str({t:?}) = {:?}", format!("{l:?}"))));
                }
                if let Some(prev) = seen.get(&l) {
                    if prev != t {
                        return Some(("label.not_injective".into(), format!("texts {prev:?} and {t:?} parse to equal labels {l:?}")));
                    }
                } else {
                    seen.insert(l, t.to_string());
                }
                // the canonical value of that text, built directly, is the same label
                let direct = canonical_value(t);
                if let Some(d) = direct {
                    if d != l {
                        return Some(("label.value_roundtrip".into(), format!("from_str({t:?}) = {l:?} differs from the directly built {d:?}")));
                    }
                }
                None
            }
        }
    }
}

/// The label value the documentation names for an in-domain text.
fn canonical_value(t: &str) -> Option<Label> {
    let chars: Vec<char> = t.chars().collect();
    if let Some(tail) = t.strip_prefix('α') {
        return tail.parse::<usize>().ok().map(Label::Alpha);
    }
    if chars.len() == 1 {
        return Some(Label::Greek(chars[0]));
    }
    if chars.len() <= 8 {
        let mut a = [' '; 8];
        for (i, c) in chars.iter().enumerate() {
            a[i] = *c;
        }
        return Some(Label::Str(a));
    }
    None
}

pub(crate) fn check_value(l: Label, evals: &mut u64) -> Option<(String, String)> {
    *evals += 1;
    let text = l.to_string();
    match caught(|| Label::from_str(&text)) {
        Err(()) => return Some(("label.parse_panics".into(), format!("from_str({text:?}) panicked"))),
        Ok(Err(e)) => return Some(("label.value_roundtrip".into(), format!("{l:?} prints as {text:?} which does not parse: {e}"))),
        Ok(Ok(p)) => {
            if p != l {
                return Some(("label.value_roundtrip".into(), format!("{l:?} prints as {text:?} which parses to the different label {p:?}")));
            }
            // an edge bound under the constructed label is found under the parsed name
            let mut g = new_graph(2, 4);
            g.add(0);
            g.add(1);
            g.bind(0, 1, l);
            if g.kid(0, p) != Some(1) {
                return Some(("label.kid_lookup".into(), format!("bind under {l:?}, kid under from_str({text:?}) = {:?}", g.kid(0, p))));
            }
            let mut g2 = new_graph(2, 4);
            g2.add(0);
            g2.add(1);
            g2.bind(0, 1, p);
            g2.bind(0, 1, l);
            if g2.kids(0).len() != 1 {
                return Some(("label.kid_lookup".into(), format!("parsed and constructed {text:?} are two labels on one vertex")));
            }
            // ... also when the vertex has edges under neighbouring names: the text with one more
            // character (bound first) and the text without its last character
            let n_chars = text.chars().count();
            if matches!(l, Label::Str(_)) && (2..=7).contains(&n_chars) && !text.starts_with('α') {
                let longer = format!("{text}x");
                let shorter: String = text.chars().take(n_chars - 1).collect();
                if let Ok(ll) = Label::from_str(&longer) {
                    let mut g3 = new_graph(3, 5);
                    for v in 0..4 {
                        g3.add(v);
                    }
                    g3.bind(0, 1, ll);
                    g3.bind(0, 2, l);
                    let ls = Label::from_str(&shorter).ok().filter(|x| *x != l && *x != ll);
                    if let Some(ls) = ls {
                        g3.bind(0, 3, ls);
                    }
                    let want_n = if ls.is_some() { 3 } else { 2 };
                    if g3.kid(0, p) != Some(2) || g3.kid(0, ll) != Some(1) || ls.is_some_and(|x| g3.kid(0, x) != Some(3)) || g3.kids(0).len() != want_n {
                        return Some(("label.kid_lookup".into(), format!(
                            "a vertex with edges {longer:?} -> 1, {text:?} -> 2, {shorter:?} -> 3: kid under from_str({text:?}) = {:?}, under {longer:?} = {:?}, {} edges",
                            g3.kid(0, p), g3.kid(0, ll), g3.kids(0).len())));
                    }
                }
            }
        }
    }
    None
}

impl Engine for LabelEngine {
    type Case = LabCase;
    fn name(&self) -> &'static str {
        "labels"
    }
    fn strategy(&self, tier: Tier) -> BoxedStrategy<LabCase> {
        let _ = tier;
        let ch = proptest::sample::select(ALPHABET.to_vec());
        let ch2 = prop_oneof![
            4 => proptest::sample::select(ALPHABET.to_vec()),
            1 => any::<char>().prop_filter("no control", |c| !c.is_control()),
        ];
        let digits = "[0-9]{1,22}".prop_map(|d| format!("α{d}"));
        let t1 = proptest::collection::vec(ch, 5..=10).prop_map(|v| v.into_iter().collect::<String>());
        let t2 = proptest::collection::vec(ch2, 1..=10).prop_map(|v| v.into_iter().collect::<String>());
        proptest::collection::vec(prop_oneof![4 => t1, 2 => t2, 1 => digits], 64)
            .prop_map(LabCase::Texts)
            .boxed()
    }
    fn run(&self, case: &LabCase) -> CaseReport {
        let mut evals = 0u64;
        let mut counts = [0u64; 3];
        let mut seen: BTreeMap<Label, String> = BTreeMap::new();
        let mut failure: Option<(String, String)> = None;
        let mut subs = vec![];
        let mut exhaustive_note = vec![];
        let mut texts: Vec<String> = vec![];
        match case {
            LabCase::Enumerate(depth) => {
                let mut level: Vec<String> = vec![String::new()];
                texts.push(String::new());
                for _ in 0..*depth {
                    let mut next = Vec::with_capacity(level.len() * ALPHABET.len());
                    for t in &level {
                        for c in ALPHABET {
                            let mut s = t.clone();
                            s.push(c);
                            next.push(s);
                        }
                    }
                    texts.extend(next.iter().cloned());
                    level = next;
                }
                exhaustive_note.push("enumerated every text over the 14-symbol alphabet up to the depth");
            }
            LabCase::Texts(v) => {
                texts = v.clone();
                // homogeneous boundary texts: every length 1..=9 of one character class
                // (1-, 2-, 3- and 4-byte UTF-8), and mixtures at the 8-character boundary
                for c in ['a', 'ρ', '中', '𝜑'] {
                    for n in 1..=9 {
                        texts.push(std::iter::repeat(c).take(n).collect());
                    }
                    texts.push(format!("{}{c}", "a".repeat(7)));
                    texts.push(format!("{c}{}", "a".repeat(7)));
                    texts.push(format!("{c}{}", "a".repeat(8)));
                }
                for d in ["18446744073709551615", "18446744073709551614", "18446744073709551610", "18446744073709551616", "09", "4294967296", "4294967295"] {
                    texts.push(format!("α{d}"));
                }
            }
        }
        for (ti, t) in texts.iter().enumerate() {
            if ti % 4096 == 0 {
                crate::campaign::touch();
            }
            if let Some(f) = Self::check_text(t, &mut seen, &mut evals, &mut counts) {
                failure = Some(f);
                break;
            }
            if classify_text(t) != TextClass::Unspecified {
                use std::hash::{Hash, Hasher};
                let mut hs = std::collections::hash_map::DefaultHasher::new();
                t.hash(&mut hs);
                subs.push(hs.finish());
            }
        }
        // canonical values: value -> text -> value, and the graph lookup
        if failure.is_none() {
            let mut values: Vec<Label> = vec![Label::Alpha(0), Label::Alpha(1), Label::Alpha(42), Label::Alpha(usize::MAX)];
            values.extend((1..=6).map(|k| Label::Alpha(usize::MAX - k)));
            // indices next to every power of ten and of two (digit-count and width boundaries)
            let mut p10: u128 = 1;
            for _ in 0..20 {
                for d in [-21i128, -2, -1, 0, 1] {
                    let v = p10 as i128 + d;
                    if v >= 0 && v <= usize::MAX as i128 {
                        values.push(Label::Alpha(v as usize));
                    }
                }
                p10 *= 10;
            }
            for k in 0..64 {
                let p = 1u128 << k;
                for d in [-1i128, 0, 1] {
                    let v = p as i128 + d;
                    if v >= 0 && v <= usize::MAX as i128 {
                        values.push(Label::Alpha(v as usize));
                    }
                }
            }
            values.extend([Label::Alpha(u32::MAX as usize), Label::Alpha(u32::MAX as usize + 1), Label::Alpha(1 << 40), Label::Alpha(10_000_000), Label::Alpha(9_999_999)]);
            for c in ALPHABET.iter().chain(['x', 'π', 'σ', 'Ω', 'я', '中', '😀'].iter()) {
                if *c != ' ' && *c != 'α' {
                    values.push(Label::Greek(*c));
                }
            }
            for t in &texts {
                if classify_text(t) == TextClass::InDomain {
                    if let Some(v) = canonical_value(t) {
                        values.push(v);
                    }
                }
                if values.len() > 4000 {
                    break;
                }
            }
            for v in values {
                if let Some(f) = check_value(v, &mut evals) {
                    failure = Some(f);
                    break;
                }
            }
        }
        let failure = failure.map(|(k, d)| Failure { prop: "C17".into(), kind: k, step: 0, detail: d });
        CaseReport {
            payload: failure.as_ref().map(|_| serde_json::to_value(case).unwrap()),
            failure,
            evaluations: evals,
            sub_hashes: subs,
            counters: vec![("texts_in_domain", counts[0]), ("texts_must_err", counts[1]), ("texts_unspecified_skipped", counts[2])],
            events: exhaustive_note,
            ..Default::default()
        }
    }
    fn render(&self, case: &LabCase) -> Value {
        match case {
            LabCase::Enumerate(d) => json!({"enumerate_all_texts_up_to_length": d, "alphabet": ALPHABET.iter().collect::<String>()}),
            LabCase::Texts(v) => json!({"texts": v.iter().take(12).collect::<Vec<_>>()}),
        }
    }
    fn minimise(&self, payload: Value, kind: &str) -> Value {
        // keep only the texts needed to fail
        if let Ok(LabCase::Texts(v)) = serde_json::from_value::<LabCase>(payload.clone()) {
            let mut budget = 500u64;
            let mut pred = |c: &[String]| self.run(&LabCase::Texts(c.to_vec())).failure.is_some_and(|f| f.kind == kind);
            let min = crate::campaign::ddmin(v, &mut pred, &mut budget);
            return serde_json::to_value(LabCase::Texts(min)).unwrap();
        }
        payload
    }
    fn replay(&self, payload: &Value) -> Option<Failure> {
        let case: LabCase = serde_json::from_value(payload.clone()).ok()?;
        self.run(&case).failure
    }
}

/// The bounded-exhaustive part of C17 as its own one-case sub-campaign.
pub struct LabelEnumEngine {
    pub depth: u8,
}
impl Engine for LabelEnumEngine {
    type Case = LabCase;
    fn name(&self) -> &'static str {
        "labels-enum"
    }
    fn strategy(&self, _: Tier) -> BoxedStrategy<LabCase> {
        Just(LabCase::Enumerate(self.depth)).boxed()
    }
    fn run(&self, case: &LabCase) -> CaseReport {
        LabelEngine.run(case)
    }
    fn render(&self, case: &LabCase) -> Value {
        LabelEngine.render(case)
    }
    fn replay(&self, payload: &Value) -> Option<Failure> {
        LabelEngine.replay(payload)
    }
}
