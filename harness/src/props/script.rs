//! C14: a script does exactly what the same API calls would do. Programs are generated
//! from model-guided add/bind/put histories with $variables, rendered with generated
//! legal formatting, and compared (twin run) with the direct calls. Corrupted texts are
//! classified by an independent strict parser of the documented grammar.

use crate::calls::{hexs, Call, Cfg};
use crate::campaign::{CaseReport, Engine, Tier};
use crate::engine::Failure;
use crate::gen::{self, data_bytes, hist_strategy, idx, HistSeed};
use crate::interp::{panic_text, Ret, Runner};
use crate::lab::{pool, Lab};
use crate::obs::{diff, try_observe, ObsLevel};
use crate::props::twin::{TwinEngine, TwinKind};
use proptest::prelude::*;
use proptest::strategy::BoxedStrategy;
use serde::{Deserialize, Serialize};
use serde_json::{json, Value};
use std::collections::{BTreeMap, BTreeSet};
use std::hash::{Hash, Hasher};
use std::panic::{catch_unwind, AssertUnwindSafe};

#[derive(Debug, Clone, PartialEq, Eq, Hash, Serialize, Deserialize)]
pub enum Arg {
    Lit(usize),
    Var(String),
}

#[derive(Debug, Clone, PartialEq, Eq, Hash, Serialize, Deserialize)]
pub enum Cmd {
    Add(Arg),
    Bind(Arg, Arg, Lab),
    Put(Arg, Vec<u8>),
}

// ---------------------------------------------------------------- strict parser

#[derive(Debug, Clone, PartialEq, Eq)]
pub enum Parsed {
    WellFormed(Vec<Cmd>),
    /// command k (0-based) is malformed; the commands before it are well-formed; the last
    /// field is the number of '$' signs in the malformed command (each may consume an id
    /// before the error is detected)
    MalformedAt(usize, Vec<Cmd>, String, usize),
    Unspecified(String),
}

enum One {
    Ok(Cmd),
    Bad(String),
    Unspec(String),
}

fn is_tokenish(c: char) -> bool {
    !c.is_whitespace() && !matches!(c, ';' | ',' | '(' | ')')
}

fn parse_vertex(a: &str) -> Result<Arg, One> {
    if let Some(name) = a.strip_prefix('$') {
        if !name.is_empty() && name.chars().all(|c| c.is_ascii_alphanumeric() || c == '_' || c == 'ν') {
            return Ok(Arg::Var(name.to_string()));
        }
        return Err(One::Unspec(format!("variable name {name:?}")));
    }
    let digits = a.strip_prefix('ν').unwrap_or(a);
    if !digits.is_empty() && digits.chars().all(|c| c.is_ascii_digit()) {
        return match digits.parse::<usize>() {
            Ok(v) => Ok(Arg::Lit(v)),
            Err(_) => Err(One::Bad(format!("id {a:?} overflows"))),
        };
    }
    if let Some(rest) = digits.strip_prefix('+') {
        if !rest.is_empty() && rest.chars().all(|c| c.is_ascii_digit()) {
            return Err(One::Unspec("signed id".into()));
        }
    }
    if a.starts_with("νν") || a.chars().any(char::is_whitespace) {
        return Err(One::Bad(format!("id {a:?}")));
    }
    Err(One::Bad(format!("non-numeric id {a:?}")))
}

fn parse_label(a: &str) -> Result<Lab, One> {
    if a.chars().any(char::is_whitespace) {
        return Err(One::Unspec("white space inside a label".into()));
    }
    let n = a.chars().count();
    if let Some(tail) = a.strip_prefix('α') {
        let digits = !tail.is_empty() && tail.chars().all(|c| c.is_ascii_digit());
        if digits {
            return match tail.parse::<u64>() {
                Ok(i) if (tail == "0" || !tail.starts_with('0')) && n <= 8 => Ok(Lab::Alpha(i)),
                Ok(_) => Err(One::Unspec("non-canonical α index".into())),
                Err(_) => Err(One::Bad("α index overflows".into())),
            };
        }
        if tail.starts_with('+') {
            return Err(One::Unspec("signed α index".into()));
        }
        return Err(One::Bad(format!("malformed α index in {a:?}")));
    }
    if n > 8 {
        return Err(One::Bad(format!("label {a:?} has more than 8 characters")));
    }
    if n == 1 {
        return Ok(Lab::Greek(a.chars().next().unwrap()));
    }
    Ok(Lab::Str(a.to_string()))
}

fn parse_data(a: &str) -> Result<Vec<u8>, One> {
    let d: String = a.chars().filter(|c| !matches!(c, ' ' | '\t' | '\n' | '\r' | '-')).collect();
    if d.chars().any(char::is_whitespace) {
        return Err(One::Unspec("unusual white space in data".into()));
    }
    if d.is_empty() || d.len() % 2 != 0 || !d.chars().all(|c| c.is_ascii_hexdigit()) {
        return Err(One::Bad(format!("data {a:?} is not an even number of hex digits")));
    }
    Ok((0..d.len()).step_by(2).map(|i| u8::from_str_radix(&d[i..i + 2], 16).unwrap()).collect())
}

fn parse_command(piece: &str) -> One {
    let op: String = piece.chars().take_while(char::is_ascii_uppercase).collect();
    if op.is_empty() {
        return One::Bad(format!("no upper-case opcode in {piece:?}"));
    }
    let rest = &piece[op.len()..];
    let after_spaces = rest.trim_start_matches(' ');
    if !after_spaces.starts_with('(') {
        if rest.trim_start().starts_with('(') {
            return One::Unspec("white space other than blanks before '('".into());
        }
        return One::Bad(format!("no '(' after the opcode in {piece:?}"));
    }
    let inner = &after_spaces[1..];
    let Some(close) = inner.find(')') else {
        return One::Bad(format!("no ')' in {piece:?}"));
    };
    if close + 1 != inner.len() {
        return One::Bad(format!("text after ')' in {piece:?}"));
    }
    let args_txt = &inner[..close];
    let raw: Vec<&str> = args_txt.split(',').map(str::trim).collect();
    let nonempty: Vec<&str> = raw.iter().copied().filter(|a| !a.is_empty()).collect();
    let need = match op.as_str() {
        "ADD" => 1,
        "BIND" => 3,
        "PUT" => 2,
        _ => return One::Bad(format!("unknown opcode {op}")),
    };
    let has_empty = raw.len() != nonempty.len() && !(raw.len() == 1 && nonempty.is_empty());
    if nonempty.len() < need {
        // a required argument is missing — unless empties shift positions ambiguously
        if has_empty && !nonempty.is_empty() {
            return One::Unspec("empty argument in the list".into());
        }
        return One::Bad(format!("{op} needs {need} arguments"));
    }
    if has_empty {
        return One::Unspec("empty argument in the list".into());
    }
    if nonempty.len() > need {
        return One::Unspec("extra arguments".into());
    }
    macro_rules! tr {
        ($e:expr) => {
            match $e {
                Ok(v) => v,
                Err(o) => return o,
            }
        };
    }
    match op.as_str() {
        "ADD" => One::Ok(Cmd::Add(tr!(parse_vertex(nonempty[0])))),
        "BIND" => {
            // evaluation order is v1, v2, label: the first offending argument decides
            let v1 = tr!(parse_vertex(nonempty[0]));
            let v2 = tr!(parse_vertex(nonempty[1]));
            let l = tr!(parse_label(nonempty[2]));
            One::Ok(Cmd::Bind(v1, v2, l))
        }
        _ => {
            let v = tr!(parse_vertex(nonempty[0]));
            let d = tr!(parse_data(nonempty[1]));
            One::Ok(Cmd::Put(v, d))
        }
    }
}

/// Independent strict parser of the documented script grammar.
pub fn strict_parse(text: &str) -> Parsed {
    // comments: '#' to the end of the line
    let chars: Vec<char> = text.chars().collect();
    let mut clean = String::new();
    let mut i = 0;
    while i < chars.len() {
        if chars[i] == '#' {
            let mut j = i;
            while j < chars.len() && chars[j] != '\n' {
                j += 1;
            }
            if j >= chars.len() {
                return Parsed::Unspecified("comment without a terminating newline".into());
            }
            let before = clean.chars().last();
            let after = chars.get(j + 1).copied();
            if before.is_some_and(is_tokenish) && after.is_some_and(is_tokenish) {
                return Parsed::Unspecified("comment inside a token".into());
            }
            i = j + 1;
            continue;
        }
        clean.push(chars[i]);
        i += 1;
    }
    let mut cmds = vec![];
    for piece in clean.split(';').map(str::trim).filter(|p| !p.is_empty()) {
        match parse_command(piece) {
            One::Ok(c) => cmds.push(c),
            One::Bad(why) => return Parsed::MalformedAt(cmds.len(), cmds, why, piece.matches('$').count()),
            One::Unspec(why) => return Parsed::Unspecified(why),
        }
    }
    Parsed::WellFormed(cmds)
}

// ---------------------------------------------------------------- direct execution

pub enum Direct {
    Done(Runner, Vec<Call>),
    OutOfDomain(String),
}

/// Execute commands as direct API calls, each variable bound to one next_id() at its
/// first textual use (arguments left to right).
pub fn exec_direct(cfg: Cfg, prefix: &[Call], cmds: &[Cmd]) -> Direct {
    let mut r = Runner::new(cfg);
    let mut vars: BTreeMap<String, usize> = BTreeMap::new();
    let mut calls = vec![];
    for c in prefix {
        if !r.valid(c) {
            return Direct::OutOfDomain("prefix call invalid".into());
        }
        let s = r.step(c);
        calls.push(c.clone());
        if s.panicked.is_some() || s.desync {
            return Direct::OutOfDomain("prefix closed".into());
        }
    }
    macro_rules! doit {
        ($c:expr) => {{
            let c: Call = $c;
            if !r.valid(&c) {
                return Direct::OutOfDomain(format!("{} violates a precondition or limit", c.render()));
            }
            let s = r.step(&c);
            calls.push(c);
            if s.panicked.is_some() || s.desync {
                return Direct::OutOfDomain("direct execution closed".into());
            }
            s
        }};
    }
    macro_rules! resolve {
        ($a:expr) => {
            match $a {
                Arg::Lit(v) => *v,
                Arg::Var(n) => {
                    if let Some(v) = vars.get(n) {
                        *v
                    } else {
                        let s = doit!(Call::NextId);
                        let Ret::Id(id) = s.ret else {
                            return Direct::OutOfDomain("next_id failed".into());
                        };
                        vars.insert(n.clone(), id);
                        id
                    }
                }
            }
        };
    }
    for c in cmds {
        match c {
            Cmd::Add(a) => {
                let v = resolve!(a);
                doit!(Call::Add(v));
            }
            Cmd::Bind(a, b, l) => {
                let x = resolve!(a);
                let y = resolve!(b);
                doit!(Call::Bind { a: x, b: y, l: l.clone(), parsed: false });
            }
            Cmd::Put(a, d) => {
                let v = resolve!(a);
                doit!(Call::Put(v, d.clone()));
            }
        }
    }
    Direct::Done(r, calls)
}

// ---------------------------------------------------------------- generation + rendering

#[derive(Debug, Clone, PartialEq, Eq, Serialize, Deserialize)]
pub struct ScriptCase {
    pub hist: HistSeed,
    pub fmt: Vec<u16>,
    /// None = well-formed; Some((kind, position, character))
    pub corrupt: Option<(u8, u16, u16)>,
}

#[derive(Debug, Clone, PartialEq, Eq, Serialize, Deserialize)]
pub struct ScriptConcrete {
    pub cfg: Cfg,
    /// direct calls made on both graphs before the script / its equivalent calls
    #[serde(default)]
    pub prefix: Vec<Call>,
    pub text: String,
    pub order_sel: u16,
}

pub struct ScriptEngine;

/// A short generated pre-history (a third of the cases): the script then runs on a graph
/// that has lived — collected groups, dangling edges, recycled ids, an advanced allocator.
fn gen_prefix(hs: &HistSeed, cfg: Cfg) -> Vec<Call> {
    if hs.profile_sel % 3 != 0 {
        return vec![];
    }
    let mut r = Runner::new(cfg);
    let mut calls = vec![];
    if hs.order_sel % 4 == 1 {
        for c in gen::dangling_edge_template(cfg.cap, hs.order_sel >> 2 & 3) {
            if r.valid(&c) {
                r.step(&c);
                calls.push(c);
            }
        }
    }
    for seed in hs.ops.iter().rev().take(40) {
        if let Some(c) = gen::resolve(seed, &r.m, gen::Profile::GcOrders) {
            if !matches!(c, Call::Add(_) | Call::Bind { .. } | Call::Put(..) | Call::Data(_) | Call::NextId | Call::NextIdAdd) || !r.valid(&c) {
                continue;
            }
            let s = r.step(&c);
            calls.push(c);
            if s.panicked.is_some() || s.desync {
                return vec![];
            }
        }
    }
    calls
}

fn gen_program(hs: &HistSeed, cfg: Cfg, prefix: &[Call]) -> Vec<Cmd> {
    let mut r = Runner::new(cfg);
    for c in prefix {
        r.step(c);
    }
    let mut id_var: BTreeMap<usize, String> = BTreeMap::new();
    let mut cmds = vec![];
    let labels: Vec<Lab> = pool().into_iter().filter(|l| !matches!(l, Lab::Alpha(i) if *i > 9_999_999) && l.text().chars().count() <= 8 && l.parse_roundtrips() && !l.text().chars().any(char::is_whitespace)).collect();
    let mut nvars = 0;
    for (k, a, b, c, d) in hs.ops.iter().take(25) {
        let pres = r.m.alive();
        let cap = r.m.cap;
        let arg_of = |v: usize, bit: bool, id_var: &BTreeMap<usize, String>| match id_var.get(&v) {
            Some(n) if bit => Arg::Var(n.clone()),
            _ => Arg::Lit(v),
        };
        match k % 10 {
            0 | 1 => {
                // add a literal id
                let v = idx(*a, cap);
                if r.valid(&Call::Add(v)) {
                    r.step(&Call::Add(v));
                    cmds.push(Cmd::Add(Arg::Lit(v)));
                }
            }
            2 | 3 => {
                // add through a new variable
                if r.valid(&Call::NextId) {
                    let s = r.step(&Call::NextId);
                    if let Ret::Id(id) = s.ret {
                        if r.valid(&Call::Add(id)) {
                            r.step(&Call::Add(id));
                            nvars += 1;
                            // the family of names is fixed per script in half of the scripts, so that
                            // names that differ only slightly meet in one text
                            let fam = if hs.order_sel & 1 == 1 { (hs.order_sel >> 1) % 11 } else { b % 11 };
                            let name = match fam {
                                // different spellings of one number are different names: ν1, ν01, ν001, 2, 02, ...
                                7 => format!("ν{}{}", "0".repeat((nvars as usize - 1) % 3), (nvars - 1) / 3 + 1),
                                8 => format!("{}{}", "0".repeat((nvars as usize - 1) % 3), (nvars - 1) / 3 + 1),
                                // names that differ in case only
                                9 => format!("{}{}", if nvars % 2 == 0 { "Tmp" } else { "tmp" }, (nvars + 1) / 2),
                                // names that differ only by a leading ν: $ν1 and $1, $νa and $a
                                10 => format!("{}{}", if nvars % 2 == 0 { "" } else { "ν" }, if nvars > 6 { format!("k{}", (nvars + 1) / 2) } else { ((nvars + 1) / 2).to_string() }),
                                0 => format!("ν{nvars}"),
                                1 => format!("v{nvars}"),
                                2 => format!("x_{nvars}"),
                                // long names that share their first 8, 12 or 16 characters
                                3 => format!("customer_{nvars}"),
                                4 => format!("temporary_variable_{nvars}"),
                                5 => format!("abcdefgh{}", "i".repeat(nvars as usize)),
                                _ => format!("νννννννννννννννν{nvars}"),
                            };
                            id_var.insert(id, name.clone());
                            cmds.push(Cmd::Add(Arg::Var(name)));
                        }
                    }
                }
            }
            4..=6 => {
                if pres.len() >= 2 {
                    // in a graph with history: bind an existing edge again (same source, label and
                    // target — possibly re-added after its group was collected)
                    if d & 12 == 12 {
                        let cands: Vec<(usize, Lab, usize)> = pres
                            .iter()
                            .flat_map(|v| r.m.get(*v).edges.iter().map(move |(l, t)| (*v, l.clone(), *t)))
                            .filter(|(v, l, t)| v != t && r.m.present(*t) && l.parse_roundtrips() && !l.text().chars().any(char::is_whitespace) && l.text().chars().count() <= 8 && !matches!(l, Lab::Alpha(i) if *i > 9_999_999))
                            .collect();
                        if !cands.is_empty() {
                            let (x, l, y) = cands[idx(*c, cands.len())].clone();
                            let call = Call::Bind { a: x, b: y, l: l.clone(), parsed: false };
                            if r.valid(&call) {
                                r.step(&call);
                                cmds.push(Cmd::Bind(arg_of(x, d & 1 == 1, &id_var), arg_of(y, d & 2 == 2, &id_var), l));
                                continue;
                            }
                        }
                    }
                    let x = pres[idx(*a, pres.len())];
                    let rest: Vec<usize> = pres.iter().copied().filter(|i| *i != x).collect();
                    let y = rest[idx(*b, rest.len())];
                    let l = labels[idx(*c, labels.len())].clone();
                    let call = Call::Bind { a: x, b: y, l: l.clone(), parsed: false };
                    if r.valid(&call) {
                        r.step(&call);
                        cmds.push(Cmd::Bind(arg_of(x, d & 1 == 1, &id_var), arg_of(y, d & 2 == 2, &id_var), l));
                    }
                }
            }
            _ => {
                if !pres.is_empty() {
                    let v = pres[idx(*a, pres.len())];
                    let mut bytes = data_bytes(*b, *c);
                    if bytes.is_empty() {
                        bytes = vec![(*c & 0xff) as u8];
                    }
                    let call = Call::Put(v, bytes.clone());
                    if r.valid(&call) {
                        r.step(&call);
                        cmds.push(Cmd::Put(arg_of(v, d & 1 == 1, &id_var), bytes));
                    }
                }
            }
        }
    }
    cmds
}

struct Fmt<'a> {
    seeds: &'a [u16],
    pos: usize,
}
impl Fmt<'_> {
    fn next(&mut self) -> u16 {
        let v = if self.seeds.is_empty() { 0 } else { self.seeds[self.pos % self.seeds.len()] };
        self.pos += 1;
        v.wrapping_add((self.pos as u16).wrapping_mul(7919) & if self.pos > self.seeds.len() { 0xffff } else { 0 })
    }
    fn ws(&mut self) -> &'static str {
        const W: [&str; 10] = ["", "", "", " ", " ", "  ", "\t", "\n", " \n  ", "\r\n"];
        W[idx(self.next(), W.len())]
    }
    /// white space at a command boundary (before the opcode, after the closing parenthesis, at
    /// both ends of the text): there every Unicode white-space character is trimmed away like a
    /// blank — one boundary in eight carries NBSP, U+3000, a vertical tab, NEL or U+2028
    fn bws(&mut self) -> &'static str {
        const U: [&str; 6] = ["\u{a0}", "\u{a0}\u{a0}", "\u{3000} ", "\u{b}", "\u{85}\n", "\u{2028}"];
        let v = self.next();
        if v % 8 == 5 {
            U[idx((v / 8).wrapping_mul(8191), U.len())]
        } else {
            const W: [&str; 10] = ["", "", "", " ", " ", "  ", "\t", "\n", " \n  ", "\r\n"];
            W[idx(v, W.len())]
        }
    }
    fn blanks(&mut self) -> &'static str {
        const W: [&str; 4] = ["", "", " ", "  "];
        W[idx(self.next(), W.len())]
    }
}

fn render_arg(a: &Arg, f: &mut Fmt) -> String {
    match a {
        Arg::Var(n) => format!("${n}"),
        Arg::Lit(v) => {
            if f.next() & 1 == 1 {
                format!("ν{v}")
            } else {
                format!("{v}")
            }
        }
    }
}

fn render_data(d: &[u8], f: &mut Fmt) -> String {
    let style = f.next() % 6;
    let mut s = String::new();
    for (i, b) in d.iter().enumerate() {
        if i > 0 {
            s.push_str(match style {
                0 | 1 | 2 => "-",
                3 => " ",
                4 => "",
                _ => {
                    if i % 2 == 0 {
                        "-"
                    } else {
                        ""
                    }
                }
            });
        }
        let lower = match style {
            0 => false,
            1 => true,
            _ => (f.next() >> 3) & 1 == 1,
        };
        s.push_str(&if lower { format!("{b:02x}") } else { format!("{b:02X}") });
    }
    s
}

const COMMENTS: [&str; 6] = [
    "# adding a vertex\n",
    "#\n",
    "# BIND(1, 2, foo); not executed (really)\n",
    "#; ) ( , $ν\n",
    "# привет ν1 α0\n",
    "#no space\n",
];

pub fn render_program(cmds: &[Cmd], seeds: &[u16]) -> String {
    let mut f = Fmt { seeds, pos: 0 };
    let mut s = String::new();
    s.push_str(f.bws());
    for (i, c) in cmds.iter().enumerate() {
        if f.next() % 5 == 0 {
            s.push_str(COMMENTS[idx(f.next(), COMMENTS.len())]);
        }
        s.push_str(f.bws());
        let (op, args): (&str, Vec<String>) = match c {
            Cmd::Add(a) => ("ADD", vec![render_arg(a, &mut f)]),
            Cmd::Bind(a, b, l) => ("BIND", vec![render_arg(a, &mut f), render_arg(b, &mut f), l.text()]),
            Cmd::Put(a, d) => ("PUT", vec![render_arg(a, &mut f), render_data(d, &mut f)]),
        };
        s.push_str(op);
        s.push_str(f.blanks());
        s.push('(');
        for (j, a) in args.iter().enumerate() {
            if j > 0 {
                s.push(',');
            }
            s.push_str(f.ws());
            s.push_str(a);
            s.push_str(f.ws());
        }
        s.push(')');
        s.push_str(f.bws());
        let last = i + 1 == cmds.len();
        if !last || f.next() % 3 != 0 {
            s.push(';');
            if f.next() % 7 == 0 {
                s.push_str(f.ws());
                s.push(';'); // empty command
            }
        }
        if f.next() % 6 == 0 {
            s.push(' ');
            s.push_str(COMMENTS[idx(f.next(), COMMENTS.len())]);
        }
    }
    s.push_str(f.bws());
    s
}

const CORRUPT_CHARS: [char; 40] = [
    'A', 'D', 'B', 'P', 'X', 'a', 'd', 'z', 'f', '0', '1', '9', '(', ')', ',', ';', '#', '$', 'ν', 'α', '-', '+', ' ', '\n', '\t', '.', 'G', 'g', '_', 'λ',
    // digits and letters that only look like ASCII ones, a combining mark, a 4-byte digit
    '٣', '１', '𝟓', '²', 'Ａ', 'ａ', 'е', '\u{301}', '½', '\u{a0}',
];
const ODD_DIGITS: [char; 6] = ['٣', '１', '𝟓', '²', '½', '৪'];

fn corrupt(text: &str, cmds: &[Cmd], fmt: &[u16], (kind, pos, ch): (u8, u16, u16)) -> (String, &'static str) {
    let chars: Vec<char> = text.chars().collect();
    if chars.is_empty() {
        return (text.to_string(), "empty");
    }
    let c = CORRUPT_CHARS[idx(ch, CORRUPT_CHARS.len())];
    match kind % 13 {
        0 => {
            let p = idx(pos, chars.len());
            let mut v = chars.clone();
            v.remove(p);
            (v.into_iter().collect(), "char.delete")
        }
        1 => {
            let p = idx(pos, chars.len() + 1);
            let mut v = chars.clone();
            v.insert(p, c);
            (v.into_iter().collect(), "char.insert")
        }
        2 => {
            let p = idx(pos, chars.len());
            let mut v = chars.clone();
            v[p] = c;
            (v.into_iter().collect(), "char.replace")
        }
        k => {
            // structured fault in command j: re-render with that command's text replaced
            if cmds.is_empty() {
                return (text.to_string(), "empty");
            }
            let j = idx(pos, cmds.len());
            let mut pieces: Vec<String> = cmds.iter().map(|c| render_program(std::slice::from_ref(c), fmt).trim().trim_end_matches(';').trim().to_string()).collect();
            let orig = pieces[j].clone();
            let (new, name): (String, &'static str) = match k {
                3 => (orig.replacen(|c: char| c.is_ascii_uppercase(), "DEL", 1), "fault.unknown_opcode"),
                4 => (orig.to_lowercase(), "fault.lowercase_opcode"),
                5 => (orig.replacen('(', "", 1), "fault.missing_open_paren"),
                6 => (orig.replacen(')', "", 1), "fault.missing_close_paren"),
                7 => match orig.rfind(',') {
                    Some(p) => (format!("{})", &orig[..p]), "fault.missing_argument"),
                    None => (format!("{}()", orig.split('(').next().unwrap_or("ADD")), "fault.missing_argument"),
                },
                8 => (orig.replacen('(', "(x", 1), "fault.non_numeric_id"),
                9 => match &cmds[j] {
                    Cmd::Put(..) => {
                        let mut o = orig.clone();
                        if let Some(p) = o.rfind(|c: char| c.is_ascii_hexdigit()) {
                            o.remove(p);
                        }
                        (o, "fault.odd_hex")
                    }
                    Cmd::Bind(..) => match orig.rfind(',') {
                        Some(p) => (format!("{}, abcdefghi)", &orig[..p]), "fault.long_label"),
                        None => (orig.clone(), "none"),
                    },
                    Cmd::Add(_) => (orig.replacen('(', "(1.", 1), "fault.non_numeric_id"),
                },
                10 => match &cmds[j] {
                    Cmd::Put(..) => match orig.rfind(',') {
                        Some(p) => (format!("{}, zz)", &orig[..p]), "fault.non_hex"),
                        None => (orig.clone(), "none"),
                    },
                    Cmd::Bind(..) => match orig.rfind(',') {
                        Some(p) => (format!("{}, αx)", &orig[..p]), "fault.bad_alpha"),
                        None => (orig.clone(), "none"),
                    },
                    Cmd::Add(_) => (orig.replacen('(', "(99999999999999999999999", 1), "fault.id_overflow"),
                },
                11 => {
                    // one ASCII digit (of an id, an index or a datum) becomes a non-ASCII digit
                    let od = ODD_DIGITS[idx(ch, ODD_DIGITS.len())];
                    let digits: Vec<usize> = orig.char_indices().filter(|(_, c)| c.is_ascii_digit()).map(|(i, _)| i).collect();
                    match digits.get(idx(ch.rotate_left(5), digits.len().max(1))) {
                        Some(p) => {
                            let mut o = orig.clone();
                            o.replace_range(*p..*p + 1, &od.to_string());
                            (o, "fault.non_ascii_digit")
                        }
                        None => (orig.clone(), "none"),
                    }
                }
                _ => (format!("{orig} {orig}"), "fault.missing_semicolon"),
            };
            pieces[j] = new;
            (pieces.join(";\n") + ";", name)
        }
    }
}

impl ScriptEngine {
    fn fail(kind: &str, step: usize, d: String) -> Failure {
        Failure { prop: "C14".into(), kind: kind.into(), step, detail: d }
    }

    /// Judge one text. Returns (failure, class, closed reason, groups died)
    fn judge(cfg: Cfg, prefix: &[Call], text: &str, order_sel: u16) -> (Option<Failure>, &'static str) {
        match strict_parse(text) {
            Parsed::Unspecified(_) => (None, "class.unspecified_skipped"),
            Parsed::WellFormed(cmds) => match exec_direct(cfg, prefix, &cmds) {
                Direct::OutOfDomain(_) => (None, "class.wellformed_out_of_domain_skipped"),
                Direct::Done(_, calls) => {
                    let e = TwinEngine { kind: TwinKind::Script { text: text.to_string(), commands: cmds.len(), prefix: prefix.to_vec() } };
                    let (f, closed, _) = e.execute_public(cfg, &calls, order_sel, &[]);
                    if closed.is_some() {
                        return (None, "class.closed");
                    }
                    (
                        f.map(|mut f| {
                            f.kind = f.kind.replace("twin.", "script.");
                            f.detail = format!("direct calls (original) vs deploy_to (twin): {}", f.detail);
                            f
                        }),
                        "class.wellformed",
                    )
                }
            },
            Parsed::MalformedAt(k, good, why, dollars) => match exec_direct(cfg, prefix, &good) {
                Direct::OutOfDomain(_) => (None, "class.malformed_prefix_out_of_domain_skipped"),
                // the arguments of the malformed command are evaluated left to right, so a
                // $variable in it may ask the allocator for an id before the fault is met: with
                // no id left that is a capacity overrun, outside the quantifier
                Direct::Done(rb, _) if rb.m.allocator_room() < dollars => {
                    let _ = rb;
                    (None, "class.malformed_but_allocator_exhausted_skipped")
                }
                Direct::Done(rb, _) => {
                    let mut pre = Runner::new(cfg);
                    for c in prefix {
                        pre.step(c);
                    }
                    let mut g = pre.g;
                    let res = catch_unwind(AssertUnwindSafe(|| g.deploy(text)));
                    match res {
                        Err(p) => (Some(Self::fail("script.panic_on_malformed", k, format!("command {k} is malformed ({why}); deploy_to() panicked: {}", panic_text(p)))), "class.malformed"),
                        Ok(Ok(n)) => (Some(Self::fail("script.accepts_malformed", k, format!("command {k} is malformed ({why}) but deploy_to() returned Ok({n})"))), "class.malformed"),
                        Ok(Err(_)) => {
                            let (oa, ob) = (try_observe(&*g, ObsLevel::FULL), try_observe(&*rb.g, ObsLevel::FULL));
                            match (oa, ob) {
                                (Ok(a), Ok(b)) => match diff(&b, &a) {
                                    Some(d) => (Some(Self::fail("script.prefix_not_applied", k, format!("command {k} is malformed ({why}); after the Err the graph differs from the first {k} commands applied directly: direct vs script: {d}"))), "class.malformed"),
                                    None => {
                                        // a malformed command yields Err whichever deployment of the Script object meets it:
                                        // the same object once more, onto a fresh copy of the prefix graph
                                        let mut again = None;
                                        let mut sc = sodg::Script::from_str(text);
                                        for round in 0..2 {
                                            let mut pre = Runner::new(cfg);
                                            for c in prefix {
                                                pre.step(c);
                                            }
                                            let mut g = pre.g;
                                            if let Ok(Ok(n)) = catch_unwind(AssertUnwindSafe(|| g.deploy_obj(&mut sc))) {
                                                again = Some(Self::fail("script.accepts_malformed", k, format!("command {k} is malformed ({why}); deployment no. {} of one and the same Script object returned Ok({n})", round + 1)));
                                                break;
                                            }
                                        }
                                        (again, "class.malformed")
                                    }
                                },
                                _ => (None, "class.closed"),
                            }
                        }
                    }
                }
            },
        }
    }
}

impl Engine for ScriptEngine {
    type Case = ScriptCase;
    fn name(&self) -> &'static str {
        "scriptgen"
    }
    fn strategy(&self, _: Tier) -> BoxedStrategy<ScriptCase> {
        (
            hist_strategy(60),
            proptest::collection::vec(any::<u16>(), 8..=64),
            proptest::option::weighted(0.5, (any::<u8>(), any::<u16>(), any::<u16>())),
        )
            .prop_map(|(hist, fmt, corrupt)| ScriptCase { hist, fmt, corrupt })
            .boxed()
    }
    fn run(&self, case: &ScriptCase) -> CaseReport {
        let cfg = gen::cfg_of(&case.hist);
        let prefix = gen_prefix(&case.hist, cfg);
        let cmds = gen_program(&case.hist, cfg, &prefix);
        let mut text = render_program(&cmds, &case.fmt);
        let mut events: Vec<&'static str> = vec![];
        if !prefix.is_empty() {
            events.push("deployed_onto_a_graph_with_history");
        }
        // the rendering itself must be well-formed by the strict parser and mean the program
        let reparsed = strict_parse(&text);
        if reparsed != Parsed::WellFormed(cmds.clone()) {
            return CaseReport { events: vec!["harness.render_parse_mismatch"], evaluations: 1, ..Default::default() };
        }
        if let Some(c) = case.corrupt {
            let (t, name) = corrupt(&text, &cmds, &case.fmt, c);
            text = t;
            events.push(name);
        }
        let (failure, class) = Self::judge(cfg, &prefix, &text, case.hist.order_sel);
        events.push(class);
        let vars_twice = {
            let mut count: BTreeMap<&String, usize> = BTreeMap::new();
            for c in &cmds {
                let args: Vec<&Arg> = match c {
                    Cmd::Add(a) | Cmd::Put(a, _) => vec![a],
                    Cmd::Bind(a, b, _) => vec![a, b],
                };
                for a in args {
                    if let Arg::Var(n) = a {
                        *count.entry(n).or_insert(0) += 1;
                    }
                }
            }
            count.values().any(|c| *c >= 2)
        };
        let nontrivial = match class {
            "class.wellformed" => cmds.len() >= 3 && vars_twice && text.contains('#') && text.contains('ν'),
            "class.malformed" => true,
            _ => false,
        };
        let mut h = std::collections::hash_map::DefaultHasher::new();
        (cfg, &text).hash(&mut h);
        CaseReport {
            payload: failure.as_ref().map(|_| serde_json::to_value(ScriptConcrete { cfg, prefix: prefix.clone(), text: text.clone(), order_sel: case.hist.order_sel }).unwrap()),
            failure,
            nontrivial,
            hash: h.finish(),
            events,
            counters: vec![("commands", cmds.len() as u64)],
            evaluations: 1,
            ..Default::default()
        }
    }
    fn render(&self, case: &ScriptCase) -> Value {
        let cfg = gen::cfg_of(&case.hist);
        let prefix = gen_prefix(&case.hist, cfg);
        let cmds = gen_program(&case.hist, cfg, &prefix);
        let mut text = render_program(&cmds, &case.fmt);
        let mut fault = "none";
        if let Some(c) = case.corrupt {
            let (t, name) = corrupt(&text, &cmds, &case.fmt, c);
            text = t;
            fault = name;
        }
        json!({"config": cfg, "calls_before_the_script": crate::calls::render_calls(cfg, &prefix), "script": text, "fault": fault, "classified": format!("{:?}", match strict_parse(&text) {
            Parsed::WellFormed(c) => format!("well-formed, {} commands", c.len()),
            Parsed::MalformedAt(k, _, why, _) => format!("malformed at command {k}: {why}"),
            Parsed::Unspecified(w) => format!("unspecified: {w}"),
        })})
    }
    fn minimise(&self, payload: Value, kind: &str) -> Value {
        let Ok(c) = serde_json::from_value::<ScriptConcrete>(payload.clone()) else {
            return payload;
        };
        // delta-debug over the ';'-separated pieces of the text
        let pieces: Vec<String> = c.text.split(';').map(ToString::to_string).collect();
        let mut budget = 400u64;
        let mut pred = |p: &[String]| Self::judge(c.cfg, &c.prefix, &p.join(";"), c.order_sel).0.is_some_and(|f| f.kind == kind);
        if !pred(&pieces) {
            return payload;
        }
        let min = crate::campaign::ddmin(pieces, &mut pred, &mut budget);
        serde_json::to_value(ScriptConcrete { text: min.join(";"), ..c.clone() }).unwrap()
    }
    fn replay(&self, payload: &Value) -> Option<Failure> {
        let c: ScriptConcrete = serde_json::from_value(payload.clone()).ok()?;
        Self::judge(c.cfg, &c.prefix, &c.text, c.order_sel).0
    }
}

#[allow(dead_code)]
fn unused() -> String {
    hexs(&[])
}

// ------------------------------------------------------------------ mass scripts

/// One script with tens of thousands of variables (C05, C14): whatever table the names are
/// kept in — by text, by a hash of it, by a number in it — every name must get an id of its
/// own from next_id(). Names are word+number families like the ones people write ($edge120,
/// $kid15602, $v7, $tmp_3), a different mix per worker. Oracle: deploy_to() returns the number
/// of commands, the graph has exactly as many vertices as there are variables, and it equals
/// the graph made by add(next_id()) once per variable.
pub struct MassScript {
    pub prop: &'static str,
    pub shard: u64,
    pub vars: usize,
}

impl MassScript {
    fn names(&self) -> Vec<String> {
        const WORDS: [&str; 16] = ["edge", "kid", "v", "node", "tmp_", "x", "obj", "attr", "ν", "left", "right", "Data", "item_", "n", "vertex", "e"];
        const ALPHA: &[u8] = b"abcdefghijklmnopqrstuvwxyz0123456789_ABCDEFGHIJKLMNOPQRSTUVWXYZ";
        let mut out = Vec::with_capacity(self.vars);
        let mut seen = BTreeSet::new();
        let mut k = 0usize;
        let mut z = 0x9E37_79B9_7F4A_7C15u64.wrapping_mul(self.shard + 1);
        while out.len() < self.vars {
            let name = if k % 2 == 0 {
                // word + number, the numbers running per word with a stride that differs per worker
                let w = WORDS[(k / 2 + self.shard as usize * 5) % 16];
                format!("{w}{}", k / 32 * (1 + self.shard as usize % 3) + self.shard as usize * 7)
            } else {
                // an identifier of 5..=10 characters that follows no pattern
                z = z.wrapping_mul(6_364_136_223_846_793_005).wrapping_add(1_442_695_040_888_963_407);
                let len = 5 + (z >> 60) as usize % 6;
                let mut t = String::new();
                let mut y = z;
                for i in 0..len {
                    y = y.wrapping_mul(6_364_136_223_846_793_005).wrapping_add(1);
                    let c = ALPHA[(y >> 33) as usize % if i == 0 { 26 } else { ALPHA.len() }];
                    t.push(c as char);
                }
                t
            };
            k += 1;
            if seen.insert(name.clone()) {
                out.push(name);
            }
        }
        out
    }

    fn one(&self) -> Option<Failure> {
        let fail = |kind: &str, d: String| Some(Failure { prop: self.prop.into(), kind: kind.into(), step: self.shard as usize, detail: format!("one script with {} variables (name mix {}): {d}", self.vars, self.shard) });
        let names = self.names();
        let distinct: BTreeSet<&String> = names.iter().collect();
        if distinct.len() != names.len() {
            return fail("harness.names_not_distinct", "the generated names repeat".into());
        }
        let mut text = String::with_capacity(names.len() * 16);
        for n in &names {
            text.push_str("ADD($");
            text.push_str(n);
            text.push_str(");\n");
        }
        let cap = names.len() + 8;
        let mut g = crate::graph::new_graph(1, cap);
        crate::campaign::touch();
        match catch_unwind(AssertUnwindSafe(|| g.deploy(&text))) {
            Err(e) => return fail("mass_script.panic", format!("deploy_to() panicked: {}", panic_text(e))),
            Ok(Err(e)) => return fail("mass_script.error", format!("deploy_to() failed: {e:#}")),
            Ok(Ok(n)) if n != names.len() => return fail("mass_script.count", format!("deploy_to() returned {n}")),
            Ok(Ok(_)) => {}
        }
        crate::campaign::touch();
        let keys = g.keys();
        if keys.len() != names.len() {
            return fail(
                if self.prop == "C05" { "script_variable.given_a_present_id" } else { "script.query_differs" },
                format!("the graph has {} vertices: {} variables were given the id of a vertex that was present already", keys.len(), names.len() - keys.len()),
            );
        }
        // the same through the API
        let mut d = crate::graph::new_graph(1, cap);
        for _ in 0..names.len() {
            let id = d.next_id();
            d.add(id);
        }
        if d.keys() != keys {
            return fail("script.query_differs", "keys() differ from the graph made by add(next_id()) once per variable".into());
        }
        None
    }
}

impl Engine for MassScript {
    type Case = u8;
    fn name(&self) -> &'static str {
        "mass-script"
    }
    fn strategy(&self, _: Tier) -> BoxedStrategy<u8> {
        Just(0u8).boxed()
    }
    fn run(&self, _: &u8) -> CaseReport {
        let failure = self.one();
        CaseReport {
            payload: failure.as_ref().map(|_| json!({"vars": self.vars, "name_mix": self.shard})),
            failure,
            evaluations: self.vars as u64,
            sub_hashes: vec![self.shard ^ 0x3A55_0000 ^ (self.vars as u64) << 32],
            nontrivial: true,
            events: vec!["one script with tens of thousands of distinct variables"],
            ..Default::default()
        }
    }
    fn render(&self, _: &u8) -> Value {
        let n = self.names();
        json!({"variables": self.vars, "first_names": n.iter().take(12).collect::<Vec<_>>(), "last_name": n.last()})
    }
    fn replay(&self, payload: &Value) -> Option<Failure> {
        MassScript { prop: self.prop, shard: payload["name_mix"].as_u64()?, vars: payload["vars"].as_u64()? as usize }.one()
    }
}
