//! Foreign activity on the same thread (`Call::Noise`, and direct use by the value-type engines).
//!
//! Every listed property is about ONE graph (or one value) and its own history. A real program
//! does other things on the same thread in between: it works on other graphs, it parses texts
//! that turn out to be malformed, it prints into sinks that fail, it saves to paths that do not
//! exist. None of that may change what the graph under test answers. `disturb(n, sel)` performs
//! one such activity, chosen by `sel`, on objects of its own — a thread-local *foreign* graph
//! with live groups and history, scratch values, scratch files — and never touches the graph
//! under test, so the reference model of a history is untouched by construction.
//!
//! What it is meant to flush out: state kept outside the graph value (thread-locals, statics:
//! "most recently vacated slot" hints, memo tables, scratch buffers, epoch counters) and error
//! paths that leave such state behind (a failed `from_str`, a failed `write!`, a failed `save`).
//!
//! All panics inside are swallowed (a defect of the foreign activity itself is not this case's
//! business); the foreign objects are re-created by `reset()` at the start of every case so that
//! a replay file reproduces from a fresh process.

use crate::graph::{hex_of, new_graph, G};
use sodg::{Hex, Label, Script};
use std::cell::RefCell;
use std::collections::BTreeMap;
use std::fmt::Write as _;
use std::panic::{catch_unwind, AssertUnwindSafe};
use std::str::FromStr;

pub const KINDS: u16 = 20;
const FCAP: usize = 20;
/// first id of the four pairs the foreign graph starts with (ids below it rotate)
const BASE: usize = 12;

#[derive(Default)]
struct Foreign {
    graphs: BTreeMap<usize, Box<dyn G>>,
    /// rotating id cursor per foreign graph
    cursor: BTreeMap<usize, usize>,
    script: Option<Script>,
    bad_script: Option<Script>,
    resets: u64,
}

thread_local! {
    static FOREIGN: RefCell<Foreign> = RefCell::new(Foreign::default());
}

/// Start of a case: the foreign scripts are forgotten every time, the foreign graphs every 64th
/// time only — `emap` never gives the memory of a store back, so a new foreign graph per case
/// would cost gigabytes in the thorough tier. A replay starts from a fresh process, i.e. from the
/// same state as a case that follows a full reset.
pub fn reset() {
    FOREIGN.with(|f| {
        let mut f = f.borrow_mut();
        f.resets += 1;
        if f.resets % 64 == 0 {
            f.graphs.clear();
            f.cursor.clear();
        }
        f.script = None;
        f.bad_script = None;
    });
}

/// A sink that accepts `room` bytes and then fails.
pub struct Bounded {
    pub room: usize,
    pub got: String,
}
impl std::fmt::Write for Bounded {
    fn write_str(&mut self, s: &str) -> std::fmt::Result {
        if s.len() > self.room {
            // take what fits on a character boundary, then fail
            let mut k = self.room;
            while k > 0 && !s.is_char_boundary(k) {
                k -= 1;
            }
            self.got.push_str(&s[..k]);
            self.room = 0;
            return Err(std::fmt::Error);
        }
        self.room -= s.len();
        self.got.push_str(s);
        Ok(())
    }
}

fn lab(t: &str) -> Label {
    let mut a = [' '; 8];
    for (i, c) in t.chars().take(8).enumerate() {
        a[i] = c;
    }
    Label::Str(a)
}

/// two absent ids of the foreign graph (rotating), or None when it is nearly full
fn two_absent(g: &dyn G, cur: &mut usize) -> Option<(usize, usize)> {
    let keys = g.keys();
    let mut out = vec![];
    for k in 0..FCAP {
        let i = (*cur + k) % FCAP;
        if !keys.contains(&i) {
            out.push(i);
            if out.len() == 2 {
                *cur = (i + 1) % FCAP;
                return Some((out[0], out[1]));
            }
        }
    }
    None
}

fn foreign_graph<'a>(f: &'a mut Foreign, n: usize) -> (&'a mut Box<dyn G>, &'a mut usize) {
    let g = f.graphs.entry(n).or_insert_with(|| {
        // a graph with history: a few live groups in the low slots, some with unread data
        let mut g = new_graph(n, FCAP);
        for k in 0..4usize {
            let (a, b) = (BASE + 2 * k, BASE + 1 + 2 * k);
            g.add(a);
            g.add(b);
            g.bind(a, b, Label::Alpha(0));
            if k % 2 == 0 {
                g.put(b, &hex_of(&[k as u8; 11]));
            }
        }
        g
    });
    let c = f.cursor.entry(n).or_insert(0);
    (g, c)
}

/// One foreign activity. `n` = edge capacity of the graph under test (the foreign graph is of the
/// same type, so that per-type state is shared as well).
pub fn disturb(n: usize, sel: u16) {
    let _ = catch_unwind(AssertUnwindSafe(|| {
        FOREIGN.with(|f| {
            let mut f = f.borrow_mut();
            disturb_inner(&mut f, n, sel);
        });
    }));
    // a panic inside leaves the RefCell borrowed-free (the guard is dropped while unwinding)
}

fn disturb_inner(f: &mut Foreign, n: usize, sel: u16) {
    let kind = sel % KINDS;
    let arg = (sel / KINDS) as usize;
    match kind {
        // a group is formed, filled, read and collected in the foreign graph
        0 => {
            let (g, cur) = foreign_graph(f, n);
            if let Some((a, b)) = two_absent(&**g, cur) {
                g.add(a);
                g.add(b);
                g.bind(a, b, Label::Greek('n'));
                g.put(a, &hex_of(&[7u8; 12]));
                let _ = g.data(a);
            }
        }
        // a pair is bound in the foreign graph and stays alive (at most 9 live groups: when
        // there is no room the readable ones are read first)
        1 => {
            let (g, cur) = foreign_graph(f, n);
            if g.len() > 14 {
                for k in g.keys() {
                    if k < BASE {
                        let _ = g.data(k);
                    }
                }
            }
            if let Some((a, b)) = two_absent(&**g, cur) {
                if a < BASE && b < BASE {
                    g.add(a);
                    g.add(b);
                    g.bind(a, b, lab("nz"));
                    g.put(b, &hex_of(&vec![9u8; 3 + arg % 9]));
                }
            }
        }
        2 => {
            let (g, _) = foreign_graph(f, n);
            if g.len() + 4 < FCAP {
                let id = g.next_id();
                if id < BASE {
                    g.add(id);
                }
            }
        }
        // malformed hex texts: a long one that goes wrong after several bytes (with and without dashes)
        3 => {
            let texts = [
                "01-02-03-04-05-06-07-08-09-0A-ZZ-0C",
                "0102030405060708090A0BZZ",
                "DE-AD-BE-EF-00-11-22-33-44-5",
                "AA-BB-CC-DD-EE-FF-00-11-22-3G",
                "ZZ",
                "01-02-03-04-05-06-07-0é",
            ];
            let _ = Hex::from_str(texts[arg % texts.len()]);
        }
        4 => {
            let texts = ["toolonglabel", "α12x", "α-1", "ninechars", "α99999999999999999999999", "αα1", "helloworl", "ab+ρ𝜑-01x"];
            let _ = Label::from_str(texts[arg % texts.len()]);
        }
        // printing into a sink that fails after a few bytes
        5 => {
            let room = arg % 11;
            let mut s = Bounded { room, got: String::new() };
            let _ = write!(s, "{}", lab("ab+ρ𝜑-01"));
            let mut s = Bounded { room, got: String::new() };
            let _ = write!(s, "{:?}", lab("hello"));
            let mut s = Bounded { room: room % 3, got: String::new() };
            let _ = write!(s, "{}", Label::Alpha(1234567));
            let mut s = Bounded { room: room % 2, got: String::new() };
            let _ = write!(s, "{:?}", Label::Greek('𝜑'));
        }
        6 => {
            let room = arg % 40;
            let h = hex_of(&[0xABu8; 20]);
            let mut s = Bounded { room, got: String::new() };
            let _ = write!(s, "{h}");
            let mut s = Bounded { room, got: String::new() };
            let _ = write!(s, "{h:?}");
            let h = hex_of(&[1, 2, 3]);
            let mut s = Bounded { room: room % 7, got: String::new() };
            let _ = write!(s, "{h}");
        }
        7 => {
            let (g, _) = foreign_graph(f, n);
            let room = arg * 7 % 120;
            let mut s = Bounded { room, got: String::new() };
            let _ = write!(s, "{}", g.debug().len()); // the text itself through the façade:
            let _ = g.debug();
            let _ = g.display();
        }
        // save() that fails (no such directory), then nothing else
        8 => {
            let (g, _) = foreign_graph(f, n);
            let _ = g.save(std::path::Path::new("/nonexistent-svcheck-dir/sub/image.sodg"));
        }
        // save() that succeeds, load() of it, of a missing file and of garbage
        9 => {
            let (g, _) = foreign_graph(f, n);
            let p = crate::interp::tmp_file("noise");
            if g.save(&p).is_ok() {
                let _ = g.load_same(&p);
            }
            if arg % 2 == 0 {
                let _ = std::fs::write(&p, vec![0x5Au8; 37 + arg % 64]);
                let _ = g.load_same(&p);
            } else if let Ok(b) = std::fs::read(&p) {
                // a torn copy of a valid image
                let _ = std::fs::write(&p, &b[..b.len() * (1 + arg % 7) / 8]);
                let _ = g.load_same(&p);
            }
            let _ = std::fs::remove_file(&p);
            let _ = g.load_same(std::path::Path::new("/nonexistent-svcheck-dir/none.sodg"));
        }
        // merge() that fails: the right graph has a vertex the root does not reach
        10 => {
            let (g, _) = foreign_graph(f, n);
            let mut left = g.clone_box();
            let mut h = new_graph(n, 12);
            h.add(0);
            h.add(1);
            h.add(7);
            h.bind(0, 1, Label::Alpha(0));
            h.put(7, &hex_of(&[3u8; 10]));
            let _ = left.merge(&*h, BASE, 0);
        }
        // merge() that succeeds, on a copy
        11 => {
            let (g, _) = foreign_graph(f, n);
            let mut left = g.clone_box();
            let mut h = new_graph(n, 12);
            h.add(0);
            h.add(9);
            h.bind(0, 9, Label::Alpha(0));
            h.put(9, &hex_of(&[4u8; 9]));
            let _ = left.merge(&*h, BASE + 2, 0);
        }
        // a script that fails in the middle: inside a long datum, in a label, in an id
        12 => {
            let (g, _) = foreign_graph(f, n);
            let mut c = g.clone_box();
            let texts = [
                "ADD(10); PUT(10, 01-02-03-04-05-06-07-08-09-0A-0B-ZZ);",
                "ADD(10); ADD(11); BIND(10, 11, toolonglabel);",
                "ADD(10); PUT(10, 0102030405060708090A0BZZ);",
                "ADD($ν1); BIND(ν12, $ν1, x); PUT($ν1, 11-22-33-44-55-66-77-88-99-A);",
                "ADD(10); ADD(x);",
                "ADD(10); FOO(10);",
            ];
            let _ = c.deploy(texts[arg % texts.len()]);
        }
        // one Script object that failed is deployed again (and a good one twice)
        13 => {
            let (g, _) = {
                let Foreign { graphs, cursor, .. } = f;
                let g = graphs.entry(n).or_insert_with(|| new_graph(n, FCAP));
                (g.clone_box(), cursor)
            };
            let mut c = g;
            let bad = f.bad_script.get_or_insert_with(|| Script::from_str("ADD(10); ADD(11); BIND(10, 11, q); PUT(11, 0Z);"));
            let _ = c.deploy_obj(bad);
            let _ = c.deploy_obj(bad);
            let good = f.script.get_or_insert_with(|| Script::from_str("ADD($ν1); ADD($ν2); BIND($ν1, $ν2, foo); PUT($ν2, 01-02-03-04-05-06-07-08-09);"));
            let _ = c.deploy_obj(good);
        }
        // traversals and exports of the foreign graph
        14 => {
            let (g, _) = foreign_graph(f, n);
            let _ = g.slice(BASE);
            let _ = g.slice_some(BASE + 2, &|_, _, _| arg % 2 == 0);
            let _ = g.inspect(BASE + 4);
        }
        15 => {
            let (g, _) = foreign_graph(f, n);
            let _ = g.to_xml();
            let _ = g.to_dot();
            let _ = g.v_print(BASE);
            let _ = g.kids(BASE);
            let _ = g.kid(BASE, Label::Alpha(0));
            let _ = g.kid(BASE + 2, lab("nz"));
        }
        // copies of the foreign graph
        16 => {
            let (g, _) = foreign_graph(f, n);
            let c = g.clone_box();
            let mut other = new_graph(n, FCAP + 6);
            other.add(FCAP + 2);
            let _ = other.clone_from_dyn(&*c);
        }
        // value-type conversions that fail
        17 => {
            let h = hex_of(&[1u8; 9]);
            let _ = h.to_i64();
            let _ = h.to_f64();
            let _ = hex_of(&[0xFF, 0xFE, 0x80]).to_utf8();
            let _ = hex_of(&[1, 2]).concat(&hex_of(&[3u8; 9]));
            let _ = h.tail(4);
        }
        // well-formed texts (so that memo tables and scratch buffers hold SOMETHING ELSE)
        18 => {
            let texts = ["veddxn", "hello", "ρ", "α42", "foo", "ab+ρ𝜑-01", "xy", "world"];
            let _ = Label::from_str(texts[arg % texts.len()]).map(|l| l.to_string());
            let _ = Hex::from_str("CA-FE-BA-BE-00-11-22-33-44-55-66").map(|h| h.print());
            let _ = Hex::from_str_bytes("noise").print();
        }
        // the foreign graph is replaced by what load(save()) gives
        _ => {
            let p = crate::interp::tmp_file("noise-reload");
            let (g, _) = foreign_graph(f, n);
            if g.save(&p).is_ok() {
                if let Ok(l) = g.load_same(&p) {
                    f.graphs.insert(n, l);
                }
            }
            let _ = std::fs::remove_file(&p);
        }
    }
}
