//! Which engines decide which property, with which fixed amount of work per tier.

use crate::campaign::{campaign, seed32, Engine, InFlight, Known, Tier, WorkerReport};
use crate::engine::Failure;
use crate::props::asan::AsanEngine;
use crate::props::bfs::BfsEngine;
use crate::props::cycles::CyclesEngine;
use crate::props::digraph::{DiEngine, LengthSweep};
use crate::props::sweeps::SweepEngine;
use crate::props::valsweeps::ValSweep;
use crate::props::gc::GcEngine;
use crate::props::multi::MultiEngine;
use crate::props::prefixes::PrefixEngine;
use crate::props::script::ScriptEngine;
use crate::props::trees::{DepthSweep, TreeEngine, TreeEnumEngine};
use crate::props::twin::{TwinEngine, TwinKind};
use crate::props::hexlab::{ConcatEngine, HexEngine, LabelEngine, LabelEnumEngine};
use serde_json::Value;

pub struct Sub {
    /// sub-campaign id (also the engine tag in replay files)
    pub id: &'static str,
    /// total generated cases over all workers
    pub quick: u64,
    pub thorough: u64,
}

pub struct Meta {
    pub level: &'static str,
    pub rule: &'static str,
    pub assumptions: &'static [&'static str],
    pub subs: Vec<Sub>,
}

pub const PROPS: &[&str] = &["C01", "C02", "C03", "C04", "C05", "C06", "C07", "C08", "C09", "C10", "C11", "C12", "C13", "C14", "C15", "C16", "C17", "C18", "C19", "C20"];

pub fn leak(s: &str) -> &'static str {
    Box::leak(s.to_string().into_boxed_str())
}

pub fn meta(prop: &str) -> Option<Meta> {
    let gc_assume: &'static [&'static str] = &[
        "the reference model (harness/src/model.rs) is a faithful reading of the property statements",
        "histories are generated inside the documented preconditions and capacity limits, judged on the model",
        "N in 1..=16 (monomorphised), capacity in {2..24, 64, 256}, at most 80 generated calls plus the drain epilogue",
        "build with debug assertions and overflow checks (profile `checked`)",
    ];
    Some(match prop {
        "C01" => Meta {
            level: "exploration",
            rule: "histories = vec(op seed, 0..=80) resolved against the reference model (construction, no rejection) + drain epilogue; oracle = invariant over the call history (removals only at a first read; removed vertices bind-linked, bound, not unread). Non-trivial: some call removed a vertex while another present vertex had to survive. Distinct = distinct hash of (N, capacity, concrete call list). Sub-campaign dimension-sweeps (bounded-exhaustive): one scalar dimension at a time is swept completely on a fixed small scenario and judged by the same oracle: vertex capacity 1..=300 and around 512..65536 (thorough: ..1100), number of present vertices 1..=600 (thorough 1100; the heavier oracles sample the counts around 64/128/256/512 in the quick tier) in a store of exactly that many and of 7 more slots, a group of 2..=16 members with 0..=m unread data put before/after binding and read in put order, two ids congruent modulo 2^k (k 6..=12, one to three multiples apart) in a diamond under an odd root, vertex id 0..=1100 (thorough 4200) in a 4201-slot store, alpha index 0..=300 and +-1 around every power of two and ten (thorough: ..70000), every byte value at every offset 0..11 of a datum, datum length 0..=2100 (thorough 9000), groups x members 0..=14 x 2..=16, number of edges 0..=N for N in {1,2,3,4,8,15,16,17,32}, the label character (every scalar value up to U+02FF, then every 997th / 61st; every scenario with room also carries an isolated vertex with an empty unread datum, one with an empty read datum and a grouped leaf with an empty unread datum; white space and control characters included where the oracle parses no text); the sweep *pairs*: every PAIR of nine dimensions (capacity, id, alpha index, datum length, one datum byte, edges, label character, group size, unread data) at their boundary values (13..34 capacities, 22 ids, 18 indices, 26 lengths, 7 bytes, 12 edge counts, 15 characters, 5 sizes, 5 counts; the quick tier shortens the capacity and length lists, C09 takes pairs in the thorough tier only) on one composite scenario, the other seven at a default; C08 only: three images above 64 MiB (a 1.5 M-slot store, 5 x 14 MiB and 70 x 1 MiB of data; keys, kids and data bytes compared). When the implementation keeps a vertex the history says is gone (the alive set has left the model: C02's business), the vertex is given a datum and read before the case is closed, after pairs without data were formed in every free group slot: whatever else disappears then was never bind-linked to it or holds an unread datum.",
            assumptions: gc_assume,
            subs: vec![Sub { id: "gcmodel", quick: 64_000, thorough: 3_200_000 }, Sub { id: "gcmodel-fast", quick: 0, thorough: 800_000 }, Sub { id: "dimension-sweeps", quick: 8, thorough: 16 }],
        },
        "C02" => Meta {
            level: "exploration",
            rule: "same generator as C01 (profiles gc-orders, overwrite, readd, limit-edge); oracle = keys() equals the alive set of the reference model after every call, no in-limit panic of add/bind/put/data, through the drain epilogue (every free group slot probed simultaneously). Non-trivial: a group died and the history has put-before-bind carried into a group, an overwrite of an unread datum, a put after a read, a re-add of a grouped vertex, a group with >=2 unread data, or >=2 groups died. Sub-campaign dimension-sweeps (bounded-exhaustive): one scalar dimension at a time is swept completely on a fixed small scenario and judged by the same oracle: vertex capacity 1..=300 and around 512..65536 (thorough: ..1100), number of present vertices 1..=600 (thorough 1100; the heavier oracles sample the counts around 64/128/256/512 in the quick tier) in a store of exactly that many and of 7 more slots, a group of 2..=16 members with 0..=m unread data put before/after binding and read in put order, two ids congruent modulo 2^k (k 6..=12, one to three multiples apart) in a diamond under an odd root, vertex id 0..=1100 (thorough 4200) in a 4201-slot store, alpha index 0..=300 and +-1 around every power of two and ten (thorough: ..70000), every byte value at every offset 0..11 of a datum, datum length 0..=2100 (thorough 9000), groups x members 0..=14 x 2..=16, number of edges 0..=N for N in {1,2,3,4,8,15,16,17,32}, the label character (every scalar value up to U+02FF, then every 997th / 61st; every scenario with room also carries an isolated vertex with an empty unread datum, one with an empty read datum and a grouped leaf with an empty unread datum; white space and control characters included where the oracle parses no text); the sweep *pairs*: every PAIR of nine dimensions (capacity, id, alpha index, datum length, one datum byte, edges, label character, group size, unread data) at their boundary values (13..34 capacities, 22 ids, 18 indices, 26 lengths, 7 bytes, 12 edge counts, 15 characters, 5 sizes, 5 counts; the quick tier shortens the capacity and length lists, C09 takes pairs in the thorough tier only) on one composite scenario, the other seven at a default; C08 only: three images above 64 MiB (a 1.5 M-slot store, 5 x 14 MiB and 70 x 1 MiB of data; keys, kids and data bytes compared).",
            assumptions: gc_assume,
            subs: vec![Sub { id: "gcmodel", quick: 64_000, thorough: 3_200_000 }, Sub { id: "bfs", quick: 8, thorough: 16 }, Sub { id: "gcmodel-fast", quick: 0, thorough: 800_000 }, Sub { id: "dimension-sweeps", quick: 8, thorough: 16 }],
        },
        "C03" => Meta {
            level: "exploration",
            rule: "generator profile overwrite-heavy; oracle = after every call, for every present vertex kids() as a set equals the model's last-bind map (one entry per label), kid() agrees for every bound label and for 6 probe labels, v_print's data marker agrees, and every data() result equals the most recent put. Non-trivial: a label was rebound or a datum overwritten, and a group died while observed vertices survived. Sub-campaign dimension-sweeps (bounded-exhaustive): one scalar dimension at a time is swept completely on a fixed small scenario and judged by the same oracle: vertex capacity 1..=300 and around 512..65536 (thorough: ..1100), number of present vertices 1..=600 (thorough 1100; the heavier oracles sample the counts around 64/128/256/512 in the quick tier) in a store of exactly that many and of 7 more slots, a group of 2..=16 members with 0..=m unread data put before/after binding and read in put order, two ids congruent modulo 2^k (k 6..=12, one to three multiples apart) in a diamond under an odd root, vertex id 0..=1100 (thorough 4200) in a 4201-slot store, alpha index 0..=300 and +-1 around every power of two and ten (thorough: ..70000), every byte value at every offset 0..11 of a datum, datum length 0..=2100 (thorough 9000), groups x members 0..=14 x 2..=16, number of edges 0..=N for N in {1,2,3,4,8,15,16,17,32}, the label character (every scalar value up to U+02FF, then every 997th / 61st; every scenario with room also carries an isolated vertex with an empty unread datum, one with an empty read datum and a grouped leaf with an empty unread datum; white space and control characters included where the oracle parses no text); the sweep *pairs*: every PAIR of nine dimensions (capacity, id, alpha index, datum length, one datum byte, edges, label character, group size, unread data) at their boundary values (13..34 capacities, 22 ids, 18 indices, 26 lengths, 7 bytes, 12 edge counts, 15 characters, 5 sizes, 5 counts; the quick tier shortens the capacity and length lists, C09 takes pairs in the thorough tier only) on one composite scenario, the other seven at a default; C08 only: three images above 64 MiB (a 1.5 M-slot store, 5 x 14 MiB and 70 x 1 MiB of data; keys, kids and data bytes compared).",
            assumptions: gc_assume,
            subs: vec![Sub { id: "gcmodel", quick: 48_000, thorough: 3_200_000 }, Sub { id: "gcmodel-fast", quick: 0, thorough: 800_000 }, Sub { id: "dimension-sweeps", quick: 8, thorough: 16 }],
        },
        "C04" => Meta {
            level: "exploration",
            rule: "generator profile readd-heavy; oracle = (i) add on a model-absent id yields a present vertex with no kids (kid() is asked for every label the collected vertex had — the model keeps a graveyard — before and after the add, and for probe labels), no data marker, no data on later reads, others unchanged; (ii) add on a present id leaves the complete observation unchanged and deleting all such adds from the history leaves the whole observation trace (to the end of the epilogue) unchanged; (iii) add never panics. Non-trivial: the history re-adds a grouped vertex or a recycled id with stale content, and a group died. Sub-campaign dimension-sweeps (bounded-exhaustive): one scalar dimension at a time is swept completely on a fixed small scenario and judged by the same oracle: vertex capacity 1..=300 and around 512..65536 (thorough: ..1100), number of present vertices 1..=600 (thorough 1100; the heavier oracles sample the counts around 64/128/256/512 in the quick tier) in a store of exactly that many and of 7 more slots, a group of 2..=16 members with 0..=m unread data put before/after binding and read in put order, two ids congruent modulo 2^k (k 6..=12, one to three multiples apart) in a diamond under an odd root, vertex id 0..=1100 (thorough 4200) in a 4201-slot store, alpha index 0..=300 and +-1 around every power of two and ten (thorough: ..70000), every byte value at every offset 0..11 of a datum, datum length 0..=2100 (thorough 9000), groups x members 0..=14 x 2..=16, number of edges 0..=N for N in {1,2,3,4,8,15,16,17,32}, the label character (every scalar value up to U+02FF, then every 997th / 61st; every scenario with room also carries an isolated vertex with an empty unread datum, one with an empty read datum and a grouped leaf with an empty unread datum; white space and control characters included where the oracle parses no text); the sweep *pairs*: every PAIR of nine dimensions (capacity, id, alpha index, datum length, one datum byte, edges, label character, group size, unread data) at their boundary values (13..34 capacities, 22 ids, 18 indices, 26 lengths, 7 bytes, 12 edge counts, 15 characters, 5 sizes, 5 counts; the quick tier shortens the capacity and length lists, C09 takes pairs in the thorough tier only) on one composite scenario, the other seven at a default; C08 only: three images above 64 MiB (a 1.5 M-slot store, 5 x 14 MiB and 70 x 1 MiB of data; keys, kids and data bytes compared).",
            assumptions: gc_assume,
            subs: vec![Sub { id: "gcmodel", quick: 48_000, thorough: 3_200_000 }, Sub { id: "gcmodel-fast", quick: 0, thorough: 800_000 }, Sub { id: "dimension-sweeps", quick: 8, thorough: 16 }],
        },
        "C05" => Meta {
            level: "exploration",
            rule: "generator profile allocator-heavy (next_id with/without add, adds ahead of/behind the allocator, collections, clone, merge, script variables); oracle = every returned id is below the capacity, absent at that moment and never returned before in this lineage; ids created by merge/script were never returned before. next_id is only generated while an absent id at or above the allocator position remains. Non-trivial: >=2 next_id calls plus a collection, clone, merge or explicit add. Sub-campaign dimension-sweeps (bounded-exhaustive): one scalar dimension at a time is swept completely on a fixed small scenario and judged by the same oracle: vertex capacity 1..=300 and around 512..65536 (thorough: ..1100), number of present vertices 1..=600 (thorough 1100; the heavier oracles sample the counts around 64/128/256/512 in the quick tier) in a store of exactly that many and of 7 more slots, a group of 2..=16 members with 0..=m unread data put before/after binding and read in put order, two ids congruent modulo 2^k (k 6..=12, one to three multiples apart) in a diamond under an odd root, vertex id 0..=1100 (thorough 4200) in a 4201-slot store, alpha index 0..=300 and +-1 around every power of two and ten (thorough: ..70000), every byte value at every offset 0..11 of a datum, datum length 0..=2100 (thorough 9000), groups x members 0..=14 x 2..=16, number of edges 0..=N for N in {1,2,3,4,8,15,16,17,32}, the label character (every scalar value up to U+02FF, then every 997th / 61st; every scenario with room also carries an isolated vertex with an empty unread datum, one with an empty read datum and a grouped leaf with an empty unread datum; white space and control characters included where the oracle parses no text); the sweep *pairs*: every PAIR of nine dimensions (capacity, id, alpha index, datum length, one datum byte, edges, label character, group size, unread data) at their boundary values (13..34 capacities, 22 ids, 18 indices, 26 lengths, 7 bytes, 12 edge counts, 15 characters, 5 sizes, 5 counts; the quick tier shortens the capacity and length lists, C09 takes pairs in the thorough tier only) on one composite scenario, the other seven at a default; C08 only: three images above 64 MiB (a 1.5 M-slot store, 5 x 14 MiB and 70 x 1 MiB of data; keys, kids and data bytes compared).",
            assumptions: gc_assume,
            subs: vec![Sub { id: "gcmodel", quick: 64_000, thorough: 3_200_000 }, Sub { id: "gcmodel-fast", quick: 0, thorough: 800_000 }, Sub { id: "dimension-sweeps", quick: 8, thorough: 16 }],
        },
        "C06" => Meta {
            level: "exploration",
            rule: "per history: k in 0..=13 long-lived groups (each holding an unread datum) are created first; then T create-fill-read cycles (quick 40..300, thorough 40..3000) run over a rotating window of ids so that ids and group slots are recycled; each cycle builds one group of 2..6 vertices with binds, puts, overwriting puts, harmless mid-cycle reads and re-puts in a generated interleaving (puts before and after binding), then reads everything (some twice); up to min(14-k, capacity/6) cycles overlap in time under a generated schedule; drain epilogue with simultaneous probing of every free group slot at the end. Oracle: keys() equals the reference model's alive set after every call and no call panics (so every cycle's vertices are gone when the model says so, and a new group can be formed whenever fewer than 14 are alive). Non-trivial (from the statement): >=15 groups were collected in one history (the 14 usable slots have wrapped). The occupied-slot count from the hook is compared with the model only as a recorded diagnostic. One case in 4 additionally runs the same number of cycles (at least capacity + 8) through ONE Script object that is deployed again and again (ADD($a); ADD($b); BIND($a, $b, x); PUT($b, ..)) with the pair read and collected in between; id-agnostic oracle: every deployment succeeds, adds exactly two vertices, the read returns the datum and takes exactly those two away.",
            assumptions: &["reference model (harness/src/model.rs)", "N in 1..=16, capacity 8..256", "build with debug assertions and overflow checks"],
            subs: vec![Sub { id: "cycles", quick: 2_400, thorough: 9_600 }, Sub { id: "cycles-fast", quick: 0, thorough: 2_400 }],
        },
        "C07" => Meta {
            level: "exploration",
            rule: "every call runs in a worker built with AddressSanitizer (quick; thorough adds MemorySanitizer and a libFuzzer+ASan campaign) and debug assertions; a sanitizer report aborts the worker and is reported with the in-flight case. Two generators over N in {1,2,4,16}, capacity 1..40: (1) an in-domain generated history (profiles limit-edge, gc-orders, forest, queries; no call may panic), extended in-domain until a limit is reached exactly, then ONE call that exceeds exactly one limit — id at or above the capacity in add/bind/put/data/kid/kids/slice/inspect/v_print/merge, an (N+1)-th label, a 17th group member — which must panic; (2) anything goes: up to 120 raw calls with ids up to capacity+2, equal/absent bind endpoints, 15th group, clone, slice, slice_some, merge of non-trees (the graph with itself, cyclic right graphs), save+load, exports, inspect, scripts, every call under catch_unwind and the same graph used on after a panic; no expectation but the sanitizer's silence. One anything-goes sequence in 8 starts with the group-exhaustion scenario on a store of 64..600 slots (14 groups on low ids, then 4..23 more pairs of ungrouped vertices bound at the largest ids, then clone, Debug, save+load, slice, reads); a quarter of the raw calls exercise the value types (Hex::from_str on 0..47 hex digits with no / canonical / sparse dashes, Label::from_str on arbitrary characters, concat, tail, ranges, byte_at). Non-trivial: (1) an overrun call was executed after reaching its limit exactly; (2) at least one call panicked and the sequence went on. Sub-campaign dimension-sweeps (bounded-exhaustive): one scalar dimension at a time is swept completely on a fixed small scenario and judged by the same oracle: vertex capacity 1..=300 and around 512..65536 (thorough: ..1100), number of present vertices 1..=600 (thorough 1100; the heavier oracles sample the counts around 64/128/256/512 in the quick tier) in a store of exactly that many and of 7 more slots, a group of 2..=16 members with 0..=m unread data put before/after binding and read in put order, two ids congruent modulo 2^k (k 6..=12, one to three multiples apart) in a diamond under an odd root, vertex id 0..=1100 (thorough 4200) in a 4201-slot store, alpha index 0..=300 and +-1 around every power of two and ten (thorough: ..70000), every byte value at every offset 0..11 of a datum, datum length 0..=2100 (thorough 9000), groups x members 0..=14 x 2..=16, number of edges 0..=N for N in {1,2,3,4,8,15,16,17,32}, the label character (every scalar value up to U+02FF, then every 997th / 61st; every scenario with room also carries an isolated vertex with an empty unread datum, one with an empty read datum and a grouped leaf with an empty unread datum; white space and control characters included where the oracle parses no text); the sweep *pairs*: every PAIR of nine dimensions (capacity, id, alpha index, datum length, one datum byte, edges, label character, group size, unread data) at their boundary values (13..34 capacities, 22 ids, 18 indices, 26 lengths, 7 bytes, 12 edge counts, 15 characters, 5 sizes, 5 counts; the quick tier shortens the capacity and length lists, C09 takes pairs in the thorough tier only) on one composite scenario, the other seven at a default; C08 only: three images above 64 MiB (a 1.5 M-slot store, 5 x 14 MiB and 70 x 1 MiB of data; keys, kids and data bytes compared). The 17th member may also arrive through a bind() that repeats an existing (dangling) edge whose target was collected and added again.",
            assumptions: &["claimed for builds with debug assertions (the crate's own bounds checks)", "AddressSanitizer does not report uninitialised reads: the thorough tier adds a MemorySanitizer run", "leak detection is off (emap never drops its elements by design)"],
            subs: vec![Sub { id: "asan-seq", quick: 24_000, thorough: 240_000 }, Sub { id: "msan-seq", quick: 0, thorough: 32_000 }, Sub { id: "dimension-sweeps", quick: 8, thorough: 16 }],
        },
        "C08" => Meta {
            level: "exploration",
            rule: "history H (<=60 generated calls, all profiles, every N, capacities 2..256) builds g; g' = load(save(g)) through a real file; (i) the complete observation (keys, len, kids in order, v_print, inspect of every vertex, Debug, to_xml, to_dot) of g and g' must be equal; (ii) a generated continuation (<=40 calls; allocator-dependent calls only when H never used the allocator, so that the one permitted difference cannot show) plus the drain epilogue is applied to both and every result, key set and observation must stay equal; (iii) hook snapshots are compared (modulo allocator position, absent slots) only as a recorded trigger. Sub-campaign datum-length-sweep (bounded-exhaustive): a two-vertex graph whose datum has EVERY length 0..=9000 (thorough: 0..=40000) and every length within ±24 of 64 KiB, 128 KiB, 256 KiB and 1 MiB is saved, reloaded and compared (complete observation, datum bytes). Non-trivial: at save time a live group holds an unread datum, a heap-encoded datum (>8 bytes) exists, and the continuation/epilogue collects a group. Sub-campaign dimension-sweeps (bounded-exhaustive): one scalar dimension at a time is swept completely on a fixed small scenario and judged by the same oracle: vertex capacity 1..=300 and around 512..65536 (thorough: ..1100), number of present vertices 1..=600 (thorough 1100; the heavier oracles sample the counts around 64/128/256/512 in the quick tier) in a store of exactly that many and of 7 more slots, a group of 2..=16 members with 0..=m unread data put before/after binding and read in put order, two ids congruent modulo 2^k (k 6..=12, one to three multiples apart) in a diamond under an odd root, vertex id 0..=1100 (thorough 4200) in a 4201-slot store, alpha index 0..=300 and +-1 around every power of two and ten (thorough: ..70000), every byte value at every offset 0..11 of a datum, datum length 0..=2100 (thorough 9000), groups x members 0..=14 x 2..=16, number of edges 0..=N for N in {1,2,3,4,8,15,16,17,32}, the label character (every scalar value up to U+02FF, then every 997th / 61st; every scenario with room also carries an isolated vertex with an empty unread datum, one with an empty read datum and a grouped leaf with an empty unread datum; white space and control characters included where the oracle parses no text); the sweep *pairs*: every PAIR of nine dimensions (capacity, id, alpha index, datum length, one datum byte, edges, label character, group size, unread data) at their boundary values (13..34 capacities, 22 ids, 18 indices, 26 lengths, 7 bytes, 12 edge counts, 15 characters, 5 sizes, 5 counts; the quick tier shortens the capacity and length lists, C09 takes pairs in the thorough tier only) on one composite scenario, the other seven at a default; C08 only: three images above 64 MiB (a 1.5 M-slot store, 5 x 14 MiB and 70 x 1 MiB of data; keys, kids and data bytes compared).",
            assumptions: &["differential: the implementation is compared with itself across save+load", "the generator is guided by the reference model so that calls stay inside preconditions and limits"],
            subs: vec![Sub { id: "twin", quick: 32_000, thorough: 1_600_000 }, Sub { id: "datum-length-sweep", quick: 8, thorough: 16 }, Sub { id: "dimension-sweeps", quick: 8, thorough: 16 }],
        },
        "C09" => Meta {
            level: "fault_enumeration",
            rule: "graphs from generated histories (<=50 calls; profiles overwrite-heavy, gc-orders, limit-edge; every N; capacities 2..256) are saved through save(); the complete image must load back (control); then for EVERY cut point 0 <= k < size (thorough: always; quick: every k for images <= 4096 bytes, otherwise the first and last 600 positions plus 1024 evenly spread ones) the file is truncated to k bytes and load() must return Err: never Ok, never a panic. One image in ~100 additionally holds a 1.3 MB datum (image > 1 MiB); images above 256 KiB get the sampled cut points (first/last 600, 1024 evenly spread, and k-1, k, k+1 around every power of two from 4096) in both tiers. Non-trivial image: holds a heap-encoded datum (>8 bytes) and a vertex with >=2 edges. Distinct = distinct (image, k) pairs of non-trivial images. Sub-campaign dimension-sweeps (bounded-exhaustive): one scalar dimension at a time is swept completely on a fixed small scenario and judged by the same oracle: vertex capacity 1..=300 and around 512..65536 (thorough: ..1100), number of present vertices 1..=600 (thorough 1100; the heavier oracles sample the counts around 64/128/256/512 in the quick tier) in a store of exactly that many and of 7 more slots, a group of 2..=16 members with 0..=m unread data put before/after binding and read in put order, two ids congruent modulo 2^k (k 6..=12, one to three multiples apart) in a diamond under an odd root, vertex id 0..=1100 (thorough 4200) in a 4201-slot store, alpha index 0..=300 and +-1 around every power of two and ten (thorough: ..70000), every byte value at every offset 0..11 of a datum, datum length 0..=2100 (thorough 9000), groups x members 0..=14 x 2..=16, number of edges 0..=N for N in {1,2,3,4,8,15,16,17,32}, the label character (every scalar value up to U+02FF, then every 997th / 61st; every scenario with room also carries an isolated vertex with an empty unread datum, one with an empty read datum and a grouped leaf with an empty unread datum; white space and control characters included where the oracle parses no text); the sweep *pairs*: every PAIR of nine dimensions (capacity, id, alpha index, datum length, one datum byte, edges, label character, group size, unread data) at their boundary values (13..34 capacities, 22 ids, 18 indices, 26 lengths, 7 bytes, 12 edge counts, 15 characters, 5 sizes, 5 counts; the quick tier shortens the capacity and length lists, C09 takes pairs in the thorough tier only) on one composite scenario, the other seven at a default; C08 only: three images above 64 MiB (a 1.5 M-slot store, 5 x 14 MiB and 70 x 1 MiB of data; keys, kids and data bytes compared). The save path holds an older checkpoint beforehand — a longer file of other content, or a complete valid image of another graph written by save() itself (once or twice) — in a directory of its own: a cut image must not be answered from anything else.",
            assumptions: &["a crash during the non-atomic write leaves a prefix of the image (no torn or reordered blocks)", "load() is called with the N the image was saved with"],
            subs: vec![Sub { id: "prefixes", quick: 800, thorough: 16_000 }, Sub { id: "dimension-sweeps", quick: 8, thorough: 16 }],
        },
        "C10" => Meta {
            level: "exploration",
            rule: "as C08 with g' = g.clone(), or (half of the cases) g' made by clone_from(): into a bigger store that has vertices of its own, also above g's capacity, or into an older smaller-history store; the continuation always may contain next_id/merge/script variables (the allocator position must be copied). Half of the cases check independence instead: the continuation and the epilogue are applied to one copy only (either direction); the other copy's complete observation must be unchanged and it must then drain exactly as the reference model at the split point says (data bytes, collections). Non-trivial: live group with unread datum and heap datum at clone time, a group dies afterwards, and (same-continuation mode) the continuation calls the allocator. Sub-campaign dimension-sweeps (bounded-exhaustive): one scalar dimension at a time is swept completely on a fixed small scenario and judged by the same oracle: vertex capacity 1..=300 and around 512..65536 (thorough: ..1100), number of present vertices 1..=600 (thorough 1100; the heavier oracles sample the counts around 64/128/256/512 in the quick tier) in a store of exactly that many and of 7 more slots, a group of 2..=16 members with 0..=m unread data put before/after binding and read in put order, two ids congruent modulo 2^k (k 6..=12, one to three multiples apart) in a diamond under an odd root, vertex id 0..=1100 (thorough 4200) in a 4201-slot store, alpha index 0..=300 and +-1 around every power of two and ten (thorough: ..70000), every byte value at every offset 0..11 of a datum, datum length 0..=2100 (thorough 9000), groups x members 0..=14 x 2..=16, number of edges 0..=N for N in {1,2,3,4,8,15,16,17,32}, the label character (every scalar value up to U+02FF, then every 997th / 61st; every scenario with room also carries an isolated vertex with an empty unread datum, one with an empty read datum and a grouped leaf with an empty unread datum; white space and control characters included where the oracle parses no text); the sweep *pairs*: every PAIR of nine dimensions (capacity, id, alpha index, datum length, one datum byte, edges, label character, group size, unread data) at their boundary values (13..34 capacities, 22 ids, 18 indices, 26 lengths, 7 bytes, 12 edge counts, 15 characters, 5 sizes, 5 counts; the quick tier shortens the capacity and length lists, C09 takes pairs in the thorough tier only) on one composite scenario, the other seven at a default; C08 only: three images above 64 MiB (a 1.5 M-slot store, 5 x 14 MiB and 70 x 1 MiB of data; keys, kids and data bytes compared).",
            assumptions: &["differential: original vs clone", "the generator is guided by the reference model"],
            subs: vec![Sub { id: "twin", quick: 32_000, thorough: 1_600_000 }, Sub { id: "dimension-sweeps", quick: 8, thorough: 16 }],
        },
        "C11" => Meta {
            level: "exploration",
            rule: "pairs of trees built through the API: g = tree of 1..8 vertices over generated ids (edges bound in a generated order so that the tree may span several groups; data placed before or after binding, lengths across 8, some already read, sometimes byte-identical to the datum h carries for the same path, sometimes in a store with no spare slot), optionally after junk groups were created and completely collected (so that merge's next_id() lands on recycled slots); h = tree of 1..8 vertices with labels from a 4-label pool (paths overlap often), data on a generated subset; `left` any vertex of g; half of the cases merge the same h a second time. Oracle: Ok, no panic; h's complete observation unchanged; the result is explained as a graft (every h path exists from left, distinct h vertices on distinct g vertices, exactly the vertices of the lacking paths are created under ids that were absent); after the merge g equals the reference model that performed the equivalent add/bind/put calls (every vertex's kids, data marker) and keeps equalling it through the drain epilogue (data bytes of every read, every collection). Cases whose result would exceed N labels/limits are skipped and counted. Sub-campaign treegen-enum (bounded-exhaustive): EVERY pair of rooted trees with at most 3 (quick) / 4 (thorough) vertices over the labels {α0, foo}, every data placement on both sides (short and 9-byte data), every choice of `left`, same oracle and epilogue. Non-trivial: |h|>=3, >=1 shared path, >=1 new vertex, >=1 datum in h, >=1 group collected afterwards. Sub-campaign merge-depth-sweep (bounded-exhaustive): chains of EVERY depth 1..=140 (thorough 200), built in runs of 15 so that every group stays within 16 members, merged onto the same chain or one that is 1 or 3 vertices shorter. One tree pair in 8 draws its labels from a family equal modulo 256, one from a family equal by ASCII case / modulo 65536, one from a family with a common 16-byte prefix.",
            assumptions: &["reference model + path-wise graft (harness/src/interp.rs graft())", "trees up to 8 vertices, 4 labels, N in 1..=16"],
            subs: vec![Sub { id: "treegen", quick: 64_000, thorough: 3_200_000 }, Sub { id: "treegen-enum", quick: 1, thorough: 1 }, Sub { id: "merge-depth-sweep", quick: 8, thorough: 16 }],
        },
        "C12" => Meta {
            level: "exploration",
            rule: "left tree and `left` as C11; right graph = generated tree reachable from `right` plus 0..4 generated extras: isolated present vertices with and without data, detached sub-trees (an extra whose parent is another extra), and vertices pointing at `right` (so that `right` is not the root of its graph). Extras may hold a datum that was already read before the merge. 6% of the cases use mirror mode: both graphs are the same chain of 2..26 vertices built from separately bound pairs that are linked afterwards (up to 13 groups), the right one plus a detached pair created last (a 14th group) and possibly an isolated vertex; the merge then creates nothing and stays within every limit. Oracle: extras present => merge() returns Err (no panic, never Ok) and the part of the message after 'missed:' names ν<id> of every unreachable present vertex; no extras => Ok (control). Nothing is asserted about g after an Err. Non-trivial: >=1 extra incl. a detached sub-tree of >=2 vertices. Sub-campaign merge-depth-sweep (bounded-exhaustive): chains of EVERY depth 1..=140 (thorough 200) merged onto the same chain or one that is 1 or 3 vertices shorter, with 0..=3 unreachable extras on the right side.",
            assumptions: &["the reachable part is mergeable within the limits (judged on the reference model); other cases are skipped and counted"],
            subs: vec![Sub { id: "treegen", quick: 64_000, thorough: 3_200_000 }, Sub { id: "merge-depth-sweep", quick: 8, thorough: 16 }],
        },
        "C13" => Meta {
            level: "exploration",
            rule: "graphs: (60%) a direct digraph builder over 1..14 generated ids with up to 40 generated edges (cycles, self-reaching loops through other vertices, shared targets, parallel labels to one target up to N), data placed before/after binding; one builder graph in 16 is a fan (N from {1,2,3,8,15,16,17,32}: a hub with N or N-1 labels onto 2..5 kids plus generated edges); (40%) graphs left behind by generated histories with collections. For EVERY present start vertex whose reachable part is present and has <=14 vertices: slice(v) and slice_some(v,p) with p a generated table over (from,to,label) accepting all / half / none. Oracle: independent BFS on the reference model: Ok, no panic; present vertices of the slice = reachable set under p, under their original ids; accepted edges between kept vertices ⊆ kids(slice) ⊆ edges of the source, no duplicates, no edge to a dropped vertex; the complete observation of the source is unchanged. Termination: a call that recurses without bound kills the worker (reported with the in-flight case); a case running >120 s is reported as non-termination. Distinct non-trivial = distinct (graph, start, predicate) whose reachable part has a cycle or shared target and, for slice_some, where p rejects an edge between kept vertices. Sub-campaign dimension-sweeps (bounded-exhaustive): one scalar dimension at a time is swept completely on a fixed small scenario and judged by the same oracle: vertex capacity 1..=300 and around 512..65536 (thorough: ..1100), number of present vertices 1..=600 (thorough 1100; the heavier oracles sample the counts around 64/128/256/512 in the quick tier) in a store of exactly that many and of 7 more slots, a group of 2..=16 members with 0..=m unread data put before/after binding and read in put order, two ids congruent modulo 2^k (k 6..=12, one to three multiples apart) in a diamond under an odd root, vertex id 0..=1100 (thorough 4200) in a 4201-slot store, alpha index 0..=300 and +-1 around every power of two and ten (thorough: ..70000), every byte value at every offset 0..11 of a datum, datum length 0..=2100 (thorough 9000), groups x members 0..=14 x 2..=16, number of edges 0..=N for N in {1,2,3,4,8,15,16,17,32}, the label character (every scalar value up to U+02FF, then every 997th / 61st; every scenario with room also carries an isolated vertex with an empty unread datum, one with an empty read datum and a grouped leaf with an empty unread datum; white space and control characters included where the oracle parses no text); the sweep *pairs*: every PAIR of nine dimensions (capacity, id, alpha index, datum length, one datum byte, edges, label character, group size, unread data) at their boundary values (13..34 capacities, 22 ids, 18 indices, 26 lengths, 7 bytes, 12 edge counts, 15 characters, 5 sizes, 5 counts; the quick tier shortens the capacity and length lists, C09 takes pairs in the thorough tier only) on one composite scenario, the other seven at a default; C08 only: three images above 64 MiB (a 1.5 M-slot store, 5 x 14 MiB and 70 x 1 MiB of data; keys, kids and data bytes compared).",
            assumptions: &["reference model edges; rejected edges between kept vertices are allowed in the slice (the statement does not forbid them)", "watchdog margin: normal cost is microseconds"],
            subs: vec![Sub { id: "digraph", quick: 40_000, thorough: 2_400_000 }, Sub { id: "dimension-sweeps", quick: 8, thorough: 16 }],
        },
        "C14" => Meta {
            level: "exploration",
            rule: "programs of <=25 ADD/BIND/PUT commands over literal ids and $variables (names of 1..14 characters, families with a common 8-character prefix) are generated from model-guided histories — half of them on a graph that already has a history of <=40 generated calls (collections, recycled ids, one in 4 from the dangling-edge-then-re-add template; one BIND in 4 repeats an existing edge) — and rendered with generated legal formatting (blanks/tabs/newlines around tokens, only blanks before '(', optional ν prefixes, newline-terminated # comments between commands incl. comments containing ';' and parentheses, optional final ';', empty commands, hex in upper/lower case separated by '-', blank or nothing). Well-formed text: graph A = deploy_to(text) and graph B = the direct calls (each variable bound to one next_id() at its first textual use) must have the returned count = number of commands, equal complete observations, and identical traces through the drain epilogue. Half of the cases carry one corruption (character delete/insert/replace, or a structured fault: unknown/lower-case opcode, missing parenthesis, missing argument, non-numeric or overflowing id, odd or non-hex data, label longer than 8, bad α index, missing ';'); an independent strict parser of the documented grammar classifies the corrupted text: well-formed => same equivalence oracle (if in-domain), malformed at command k => Err, no panic, and A equals the first k commands applied directly, unspecified => skipped and counted. Non-trivial: >=3 commands with a variable used twice, a comment and a ν prefix; or a text classified malformed. Sub-campaign dimension-sweeps (bounded-exhaustive): one scalar dimension at a time is swept completely on a fixed small scenario and judged by the same oracle: vertex capacity 1..=300 and around 512..65536 (thorough: ..1100), number of present vertices 1..=600 (thorough 1100; the heavier oracles sample the counts around 64/128/256/512 in the quick tier) in a store of exactly that many and of 7 more slots, a group of 2..=16 members with 0..=m unread data put before/after binding and read in put order, two ids congruent modulo 2^k (k 6..=12, one to three multiples apart) in a diamond under an odd root, vertex id 0..=1100 (thorough 4200) in a 4201-slot store, alpha index 0..=300 and +-1 around every power of two and ten (thorough: ..70000), every byte value at every offset 0..11 of a datum, datum length 0..=2100 (thorough 9000), groups x members 0..=14 x 2..=16, number of edges 0..=N for N in {1,2,3,4,8,15,16,17,32}, the label character (every scalar value up to U+02FF, then every 997th / 61st; every scenario with room also carries an isolated vertex with an empty unread datum, one with an empty read datum and a grouped leaf with an empty unread datum; white space and control characters included where the oracle parses no text); the sweep *pairs*: every PAIR of nine dimensions (capacity, id, alpha index, datum length, one datum byte, edges, label character, group size, unread data) at their boundary values (13..34 capacities, 22 ids, 18 indices, 26 lengths, 7 bytes, 12 edge counts, 15 characters, 5 sizes, 5 counts; the quick tier shortens the capacity and length lists, C09 takes pairs in the thorough tier only) on one composite scenario, the other seven at a default; C08 only: three images above 64 MiB (a 1.5 M-slot store, 5 x 14 MiB and 70 x 1 MiB of data; keys, kids and data bytes compared). Variable name families include different spellings of one number (ν1, ν01, ν001, 1, 01) and names differing in case only; faults include non-ASCII digits, full-width letters and a combining mark.",
            assumptions: &["the strict parser in harness/src/props/script.rs is a faithful reading of the documented grammar; everything it is unsure about is classified unspecified and not judged", "differential: deploy_to vs direct calls"],
            subs: vec![Sub { id: "scriptgen", quick: 48_000, thorough: 2_400_000 }, Sub { id: "dimension-sweeps", quick: 8, thorough: 16 }],
        },
        "C15" => Meta {
            level: "exploration",
            rule: "per case: generated 12-byte content, 8-byte padding, 4 random + 10 special i64, 4 random + 12 special f64 bit patterns; for every length 0..=12 and every representation (canonical, heap Vector, inline array with non-zero padding) EVERY index i in {0..=14, usize::MAX-1, usize::MAX} for [i], byte_at, tail, [i..], [..i], [..=i], IndexMut and every pair (i,j) of those for [i..j], [i..=j] is compared with the same operation on the byte slice (equal result or both panic); plus single-bit inequality (every bit of every length 1..=9 flipped, in every pair of representations: the two values must differ), inclusive ranges advanced with next() until exhausted compared with the same range value on the byte slice, plus bytes/len/to_vec/print/Display/Debug/[..]/eq across representations/from_str(print)/to_i64/to_f64/to_utf8/to_bool and the From conversions. In addition three long byte strings per case (lengths from {13..64, 200, 255, 256, 257, 1000, 65535, 65536, 65537} plus 0..6) in canonical and heap form are checked for the whole-value accessors and at sampled indices/ranges: 0, 1, 7, 8, 9, the middle, len-1, len, len+1, 255, 256, 257, 65535, 65536, usize::MAX and six generated positions, in both orders. The index space is enumerated completely per content. Distinct non-trivial = distinct (bytes, representation, padding) triples whose whole index space was checked. Sub-campaign value-sweeps (bounded-exhaustive): EVERY length 0..=2100 (thorough 9000) and +-9 around 16 Ki..128 Ki in every representation, all accessors, indices/ranges over {0,1,7,8,9,len/2,len-1,len,len+1,len+9,usize::MAX-1,usize::MAX} squared; every Unicode scalar value up to U+2FFF and every 7th above (thorough: all) as first / last / only character of a text given to from_str_bytes (bytes, len, to_utf8 against the text's own bytes); the numeric constructors: every i8 and i16, the wider ones +-2 around every power of two (both signs) and strided through the bit patterns.",
            assumptions: &["the oracle is Rust's own slice indexing on the same bytes", "lengths 0..=12, indices 0..=14 and the two largest usize values"],
            subs: vec![Sub { id: "hexenum", quick: 240, thorough: 9_600 }, Sub { id: "value-sweeps", quick: 8, thorough: 16 }],
        },
        "C16" => Meta {
            level: "exploration",
            rule: "per case: two generated 12-byte contents and paddings; EVERY (len a, len b) in 0..=12 x 0..=12 and every pair of representations (canonical, heap, inline with non-zero padding): a.concat(b).bytes() == a.bytes() ++ b.bytes(), operands unchanged (bytes and representation). The same enumeration is repeated with all-zero and all-0xFF contents on either side, and four pairs of long operands per case (lengths from {0, 1, 7, 8, 9, 13, 16, 31, 255, 256, 257, 1000, 4096, 65535, 65536, 65537} plus 0..2) in all representation pairs. The length space is enumerated completely per content. Distinct non-trivial = distinct (a bytes, b bytes, representations) with a length of 8 or a total above 8. Failures with the exact signature of the open known finding are counted and the search goes on. Sub-campaign value-sweeps (bounded-exhaustive): EVERY pair of operand lengths in 0..=96 x 0..=96 (thorough 200 x 200), every (short 0..=16, long up to 4200 / 20000) pair in both orders, and +-9 around 64 Ki and 128 Ki, in every pair of representations.",
            assumptions: &["the oracle is Vec concatenation", "lengths 0..=12"],
            subs: vec![Sub { id: "concatenum", quick: 800, thorough: 32_000 }, Sub { id: "value-sweeps", quick: 8, thorough: 16 }],
        },
        "C17" => Meta {
            level: "exploration",
            rule: "sub-campaign labels-enum: EVERY text of length 0..=4 (quick) / 0..=5 (thorough) over the 14-symbol alphabet {a Z 7 + - _ α ρ φ 𝜑 0 1 9 space} is classified by an independent reading of the documented grammar into in-domain (must parse, print back identically, be injective, and equal the directly constructed value), must-be-rejected (more than 8 characters without α prefix, malformed or overflowing index) or unspecified (empty, contains a space, +index, leading zeros, α-index text longer than 8: skipped and counted); sub-campaign labels: generated texts of length 5..=10 over the alphabet, arbitrary unicode texts, α+1..22 digits, homogeneous texts of every length 1..=9 per UTF-8 width (a, ρ, 中, 𝜑) and mixtures at the 8-character boundary, α followed by the indices around 2^32 and usize::MAX and 10^k-2..=10^k+2, 2^k-2..=2^k+2 for every k; every canonical value (Greek(c), Alpha(n), Str of 2..=8) met is printed, parsed back, compared, and looked up in a graph (bind under the constructed label, kid under the parsed one). Distinct non-trivial = distinct judged (not unspecified) texts. Sub-campaign value-sweeps (bounded-exhaustive): EVERY Unicode scalar value c in seven texts (c, ca, ac, c x 8, a + c x 8, αc, c1) through the classifier oracle and as Greek(c) / Str value through print, parse and graph lookup; EVERY alpha index 0..=100000 (thorough 2000000).",
            assumptions: &["the text grammar as read from the property statement and src/label.rs documentation (DESIGN §6 C17 lists the unspecified classes)"],
            subs: vec![Sub { id: "labels-enum", quick: 1, thorough: 1 }, Sub { id: "labels", quick: 8_000, thorough: 320_000 }, Sub { id: "value-sweeps", quick: 8, thorough: 16 }],
        },
        "C18" => Meta {
            level: "exploration",
            rule: "graphs as C13 (digraph builder and histories with collections, never-added slots, dangling edges, data of all lengths incl. empty, labels that need no escaping, capacities 2..256). Oracle: to_xml() parsed with sxd-document and to_dot() parsed with a line grammar of the fixed format: node list = keys() in ascending order (none for absent ids); per node the edge set (label, target) = the model's edges; data = the model's bytes for exactly the vertices that have data. Metamorphic: for graphs without dangling edges a second graph with the same present vertices, edges and data is built differently (other capacity, reversed add/bind/label order, junk created and collected first, other read status) and must print byte-identical XML and DOT; one graph in 16 is wide (a vertex with 12..16 edges under labels from families equal modulo 128/256/case). Sub-campaign datum-length-sweep (bounded-exhaustive): EVERY datum length 0..=9000 (thorough: 0..=40000) and ±24 around 64 KiB, 128 KiB, 256 KiB, 1 MiB on a two-vertex graph, both exports parsed back. Non-trivial: an absent id below the largest present id, a vertex with >=2 edges, and a datum. Sub-campaign dimension-sweeps (bounded-exhaustive): one scalar dimension at a time is swept completely on a fixed small scenario and judged by the same oracle: vertex capacity 1..=300 and around 512..65536 (thorough: ..1100), number of present vertices 1..=600 (thorough 1100; the heavier oracles sample the counts around 64/128/256/512 in the quick tier) in a store of exactly that many and of 7 more slots, a group of 2..=16 members with 0..=m unread data put before/after binding and read in put order, two ids congruent modulo 2^k (k 6..=12, one to three multiples apart) in a diamond under an odd root, vertex id 0..=1100 (thorough 4200) in a 4201-slot store, alpha index 0..=300 and +-1 around every power of two and ten (thorough: ..70000), every byte value at every offset 0..11 of a datum, datum length 0..=2100 (thorough 9000), groups x members 0..=14 x 2..=16, number of edges 0..=N for N in {1,2,3,4,8,15,16,17,32}, the label character (every scalar value up to U+02FF, then every 997th / 61st; every scenario with room also carries an isolated vertex with an empty unread datum, one with an empty read datum and a grouped leaf with an empty unread datum; white space and control characters included where the oracle parses no text); the sweep *pairs*: every PAIR of nine dimensions (capacity, id, alpha index, datum length, one datum byte, edges, label character, group size, unread data) at their boundary values (13..34 capacities, 22 ids, 18 indices, 26 lengths, 7 bytes, 12 edge counts, 15 characters, 5 sizes, 5 counts; the quick tier shortens the capacity and length lists, C09 takes pairs in the thorough tier only) on one composite scenario, the other seven at a default; C08 only: three images above 64 MiB (a 1.5 M-slot store, 5 x 14 MiB and 70 x 1 MiB of data; keys, kids and data bytes compared). Data include a family of near-duplicates (one text per length 17/24/40/64 with one middle byte changed); labels include families with a long common prefix that differ in the last character.",
            assumptions: &["reference model for vertices/edges/data", "DOT line grammar as documented in src/dot.rs"],
            subs: vec![Sub { id: "digraph", quick: 40_000, thorough: 2_400_000 }, Sub { id: "datum-length-sweep", quick: 8, thorough: 16 }, Sub { id: "dimension-sweeps", quick: 8, thorough: 16 }],
        },
        "C20" => Meta {
            level: "exploration",
            rule: "graphs as C13; for EVERY present start vertex inspect(v) is parsed by indentation into (source, label, target, seen-mark) records: for every vertex reachable from v through present vertices the records with that source must equal its edges exactly once each (what is printed beneath an edge to a collected vertex is not judged); v_print(v) must show Δ exactly when the vertex has data and list exactly its labels; Debug and Display must be equal and contain one block per present vertex (none for absent ids) with exactly its edges and its data bytes. Termination as C13. Distinct non-trivial = distinct (graph, start) whose reachable part has a cycle or a shared target. Sub-campaign dimension-sweeps (bounded-exhaustive): one scalar dimension at a time is swept completely on a fixed small scenario and judged by the same oracle: vertex capacity 1..=300 and around 512..65536 (thorough: ..1100), number of present vertices 1..=600 (thorough 1100; the heavier oracles sample the counts around 64/128/256/512 in the quick tier) in a store of exactly that many and of 7 more slots, a group of 2..=16 members with 0..=m unread data put before/after binding and read in put order, two ids congruent modulo 2^k (k 6..=12, one to three multiples apart) in a diamond under an odd root, vertex id 0..=1100 (thorough 4200) in a 4201-slot store, alpha index 0..=300 and +-1 around every power of two and ten (thorough: ..70000), every byte value at every offset 0..11 of a datum, datum length 0..=2100 (thorough 9000), groups x members 0..=14 x 2..=16, number of edges 0..=N for N in {1,2,3,4,8,15,16,17,32}, the label character (every scalar value up to U+02FF, then every 997th / 61st; every scenario with room also carries an isolated vertex with an empty unread datum, one with an empty read datum and a grouped leaf with an empty unread datum; white space and control characters included where the oracle parses no text); the sweep *pairs*: every PAIR of nine dimensions (capacity, id, alpha index, datum length, one datum byte, edges, label character, group size, unread data) at their boundary values (13..34 capacities, 22 ids, 18 indices, 26 lengths, 7 bytes, 12 edge counts, 15 characters, 5 sizes, 5 counts; the quick tier shortens the capacity and length lists, C09 takes pairs in the thorough tier only) on one composite scenario, the other seven at a default; C08 only: three images above 64 MiB (a 1.5 M-slot store, 5 x 14 MiB and 70 x 1 MiB of data; keys, kids and data bytes compared).",
            assumptions: &["reference model for vertices/edges/data", "output formats as produced by src/inspect.rs and src/debug.rs (parsers in harness/src/props/digraph.rs)"],
            subs: vec![Sub { id: "digraph", quick: 40_000, thorough: 2_400_000 }, Sub { id: "dimension-sweeps", quick: 8, thorough: 16 }],
        },
        "C19" => Meta {
            level: "exploration",
            rule: "two configurations (N from 1..=16, 17, 32; capacity from {2..24,64,256,700}) are drawn; a history (<=60 generated calls incl. next_id, merge of trees, slice, slice_some, clone, clone_from into another store, save+load, + slice_some from every eligible vertex under three predicates + drain epilogue) is generated inside the limits of the smaller one; its complete observation trace after every call (results, keys, kids() in enumeration order, v_print, inspect text of every vertex, Debug text; next_id results, ids created by merge, keys/kids of slices) must be identical (a) on two runs in one process (every HashSet/HashMap gets fresh random keys), (b) for a sample of cases in another process, (c) under the other configuration. Non-trivial: the history contains a merge, slice or next_id, some vertex has >=2 labels, and the two configurations differ. Sub-campaign dimension-sweeps (bounded-exhaustive): one scalar dimension at a time is swept completely on a fixed small scenario and judged by the same oracle: vertex capacity 1..=300 and around 512..65536 (thorough: ..1100), number of present vertices 1..=600 (thorough 1100; the heavier oracles sample the counts around 64/128/256/512 in the quick tier) in a store of exactly that many and of 7 more slots, a group of 2..=16 members with 0..=m unread data put before/after binding and read in put order, two ids congruent modulo 2^k (k 6..=12, one to three multiples apart) in a diamond under an odd root, vertex id 0..=1100 (thorough 4200) in a 4201-slot store, alpha index 0..=300 and +-1 around every power of two and ten (thorough: ..70000), every byte value at every offset 0..11 of a datum, datum length 0..=2100 (thorough 9000), groups x members 0..=14 x 2..=16, number of edges 0..=N for N in {1,2,3,4,8,15,16,17,32}, the label character (every scalar value up to U+02FF, then every 997th / 61st; every scenario with room also carries an isolated vertex with an empty unread datum, one with an empty read datum and a grouped leaf with an empty unread datum; white space and control characters included where the oracle parses no text); the sweep *pairs*: every PAIR of nine dimensions (capacity, id, alpha index, datum length, one datum byte, edges, label character, group size, unread data) at their boundary values (13..34 capacities, 22 ids, 18 indices, 26 lengths, 7 bytes, 12 edge counts, 15 characters, 5 sizes, 5 counts; the quick tier shortens the capacity and length lists, C09 takes pairs in the thorough tier only) on one composite scenario, the other seven at a default; C08 only: three images above 64 MiB (a 1.5 M-slot store, 5 x 14 MiB and 70 x 1 MiB of data; keys, kids and data bytes compared).",
            assumptions: &["differential: the implementation is compared with itself", "image sizes returned by save() are masked (they depend on the capacity by nature)", "exports (to_xml/to_dot) are left to C18"],
            subs: vec![Sub { id: "multi-config", quick: 24_000, thorough: 1_200_000 }, Sub { id: "dimension-sweeps", quick: 8, thorough: 16 }],
        },
        _ => return None,
    })
}

/// Run one worker's share of one sub-campaign.
pub fn run_sub(
    prop: &str,
    sub: &str,
    tier: Tier,
    verif_seed: u64,
    worker: u64,
    cases: u64,
    known: &Known,
    inflight: &mut InFlight,
) -> WorkerReport {
    let seed = seed32(verif_seed, &format!("{prop}/{sub}"), worker);
    let max_shrink = 3000;
    match (prop, sub) {
        ("C01" | "C02" | "C03" | "C04" | "C05", "gcmodel" | "gcmodel-fast") => {
            let e = GcEngine::for_prop(leak(prop));
            campaign(&e, tier, seed, cases, known, inflight, max_shrink)
        }
        ("C02", "bfs") => {
            let of = if tier == Tier::Quick { 8 } else { 16 };
            let e = BfsEngine { shard: worker, of, depth: if tier == Tier::Quick { 7 } else { 10 }, drain_every: if tier == Tier::Quick { 16 } else { 4 } };
            let mut r = campaign(&e, tier, seed, cases, known, inflight, 0);
            r.exhaustive = r.found.is_empty();
            r
        }
        ("C07", "asan-seq" | "msan-seq") => campaign(&AsanEngine, tier, seed, cases, known, inflight, 400),
        ("C06", "cycles" | "cycles-fast") => campaign(&CyclesEngine { max_cycles: if tier == Tier::Quick { 300 } else { 3000 } }, tier, seed, cases, known, inflight, 300),
        ("C08", "twin") => campaign(&TwinEngine { kind: TwinKind::SaveLoad }, tier, seed, cases, known, inflight, max_shrink),
        ("C09", "prefixes") => campaign(&PrefixEngine { all_prefixes: tier == Tier::Thorough }, tier, seed, cases, known, inflight, 100),
        ("C10", "twin") => campaign(&TwinEngine { kind: TwinKind::Clone }, tier, seed, cases, known, inflight, max_shrink),
        ("C19", "multi-config") => campaign(&MultiEngine, tier, seed, cases, known, inflight, 600),
        ("C11", "treegen-enum") => {
            let e = TreeEnumEngine { max: if tier == Tier::Quick { 3 } else { 4 } };
            let mut r = campaign(&e, tier, seed, cases, known, inflight, 0);
            r.exhaustive = r.found.is_empty();
            r
        }
        ("C11" | "C12", "merge-depth-sweep") => {
            let of = if tier == Tier::Quick { 8 } else { 16 };
            let e = DepthSweep { extras: prop == "C12", shard: worker, of, max: if tier == Tier::Quick { 140 } else { 200 } };
            let mut r = campaign(&e, tier, seed, cases, known, inflight, 0);
            r.exhaustive = r.found.is_empty();
            r
        }
        ("C11", "treegen") => campaign(&TreeEngine { extras: false }, tier, seed, cases, known, inflight, 1500),
        ("C12", "treegen") => campaign(&TreeEngine { extras: true }, tier, seed, cases, known, inflight, 1500),
        ("C08" | "C18", "datum-length-sweep") => {
            let of = if tier == Tier::Quick { 8 } else { 16 };
            let e = LengthSweep { prop: leak(prop), shard: worker, of, max: if tier == Tier::Quick { 9_000 } else { 40_000 } };
            let mut r = campaign(&e, tier, seed, cases, known, inflight, 0);
            r.exhaustive = r.found.is_empty();
            r
        }
        ("C01" | "C02" | "C03" | "C04" | "C05" | "C07" | "C08" | "C09" | "C10" | "C13" | "C14" | "C18" | "C19" | "C20", "dimension-sweeps") => {
            let of = if tier == Tier::Quick { 8 } else { 16 };
            let e = SweepEngine { prop: leak(prop), shard: worker, of, thorough: tier == Tier::Thorough };
            let mut r = campaign(&e, tier, seed, cases, known, inflight, 0);
            r.exhaustive = r.found.is_empty();
            r
        }
        ("C15" | "C16" | "C17", "value-sweeps") => {
            let of = if tier == Tier::Quick { 8 } else { 16 };
            let e = ValSweep { prop: leak(prop), shard: worker, of, thorough: tier == Tier::Thorough, tolerate: known.open.keys().cloned().collect() };
            let mut r = campaign(&e, tier, seed, cases, known, inflight, 0);
            r.exhaustive = r.found.is_empty();
            r
        }
        ("C13" | "C18" | "C20", "digraph") => campaign(&DiEngine { prop: leak(prop) }, tier, seed, cases, known, inflight, 1200),
        ("C14", "scriptgen") => campaign(&ScriptEngine, tier, seed, cases, known, inflight, 800),
        ("C15", "hexenum") => campaign(&HexEngine, tier, seed, cases, known, inflight, 50),
        ("C16", "concatenum") => {
            let e = ConcatEngine { tolerate: known.open.keys().cloned().collect() };
            campaign(&e, tier, seed, cases, known, inflight, 50)
        }
        ("C17", "labels-enum") => {
            let e = LabelEnumEngine { depth: if tier == Tier::Quick { 4 } else { 5 } };
            let mut r = campaign(&e, tier, seed, cases, known, inflight, 0);
            r.exhaustive = r.found.is_empty();
            r
        }
        ("C17", "labels") => campaign(&LabelEngine, tier, seed, cases, known, inflight, 200),
        _ => panic!("unknown sub-campaign {prop}/{sub}"),
    }
}

/// Re-run a replay payload (concrete level) without any generator.
pub fn replay(prop: &str, engine: &str, payload: &Value) -> Result<Option<Failure>, String> {
    match (prop, engine) {
        ("C01" | "C02" | "C03" | "C04" | "C05", "gcmodel" | "gcmodel-fast") => Ok(GcEngine::for_prop(leak(prop)).replay(payload)),
        ("C02", "bfs") => Ok(BfsEngine { shard: 0, of: 1, depth: 0, drain_every: 1 }.replay(payload)),
        ("C07", "asan-seq" | "msan-seq") => Ok(AsanEngine.replay(payload)),
        ("C06", "cycles" | "cycles-fast") => Ok(CyclesEngine { max_cycles: 3000 }.replay(payload)),
        ("C08", "twin") => Ok(TwinEngine { kind: TwinKind::SaveLoad }.replay(payload)),
        ("C09", "prefixes") => Ok(PrefixEngine { all_prefixes: true }.replay(payload)),
        ("C10", "twin") => Ok(TwinEngine { kind: TwinKind::Clone }.replay(payload)),
        ("C19", "multi-config") => Ok(MultiEngine.replay(payload)),
        ("C11" | "C12", "merge-depth-sweep") => Ok(DepthSweep { extras: prop == "C12", shard: 0, of: 1, max: 0 }.replay(payload)),
        ("C11", "treegen" | "treegen-enum") => Ok(TreeEngine { extras: false }.replay(payload)),
        ("C12", "treegen") => Ok(TreeEngine { extras: true }.replay(payload)),
        ("C08" | "C18", "datum-length-sweep") => Ok(LengthSweep { prop: leak(prop), shard: 0, of: 1, max: 0 }.replay(payload)),
        ("C15" | "C16" | "C17", "value-sweeps") => Ok(ValSweep { prop: leak(prop), shard: 0, of: 1, thorough: false, tolerate: Default::default() }.replay(payload)),
        (_, "dimension-sweeps") => Ok(SweepEngine { prop: leak(prop), shard: 0, of: 1, thorough: false }.replay(payload)),
        ("C13" | "C18" | "C20", "digraph") => Ok(DiEngine { prop: leak(prop) }.replay(payload)),
        ("C14", "scriptgen") => Ok(ScriptEngine.replay(payload)),
        ("C15", "hexenum") => Ok(HexEngine.replay(payload)),
        ("C16", "concatenum") => Ok(ConcatEngine { tolerate: Default::default() }.replay(payload)),
        ("C17", "labels" | "labels-enum") => Ok(LabelEngine.replay(payload)),
        _ => Err(format!("no replay for {prop}/{engine}")),
    }
}

/// Re-run a generator-level case (used for crash reproduction from an in-flight file).
pub fn run_case(prop: &str, engine: &str, case: &Value) -> Result<Option<Failure>, String> {
    match (prop, engine) {
        ("C01" | "C02" | "C03" | "C04" | "C05", "gcmodel" | "gcmodel-fast") => {
            let e = GcEngine::for_prop(leak(prop));
            let c = serde_json::from_value(case.clone()).map_err(|e| e.to_string())?;
            Ok(e.run(&c).failure)
        }
        ("C07", "asan-seq" | "msan-seq") => Ok(AsanEngine.run(&serde_json::from_value(case.clone()).map_err(|e| e.to_string())?).failure),
        ("C06", "cycles" | "cycles-fast") => Ok(CyclesEngine { max_cycles: 3000 }.run(&serde_json::from_value(case.clone()).map_err(|e| e.to_string())?).failure),
        ("C08", "twin") => Ok(TwinEngine { kind: TwinKind::SaveLoad }.run(&serde_json::from_value(case.clone()).map_err(|e| e.to_string())?).failure),
        ("C09", "prefixes") => Ok(PrefixEngine { all_prefixes: true }.run(&serde_json::from_value(case.clone()).map_err(|e| e.to_string())?).failure),
        ("C10", "twin") => Ok(TwinEngine { kind: TwinKind::Clone }.run(&serde_json::from_value(case.clone()).map_err(|e| e.to_string())?).failure),
        ("C19", "multi-config") => Ok(MultiEngine.run(&serde_json::from_value(case.clone()).map_err(|e| e.to_string())?).failure),
        ("C11", "treegen") => Ok(TreeEngine { extras: false }.run(&serde_json::from_value(case.clone()).map_err(|e| e.to_string())?).failure),
        ("C12", "treegen") => Ok(TreeEngine { extras: true }.run(&serde_json::from_value(case.clone()).map_err(|e| e.to_string())?).failure),
        ("C13" | "C18" | "C20", "digraph") => Ok(DiEngine { prop: leak(prop) }.run(&serde_json::from_value(case.clone()).map_err(|e| e.to_string())?).failure),
        ("C14", "scriptgen") => Ok(ScriptEngine.run(&serde_json::from_value(case.clone()).map_err(|e| e.to_string())?).failure),
        ("C15", "hexenum") => Ok(HexEngine.replay(case)),
        ("C16", "concatenum") => Ok(ConcatEngine { tolerate: Default::default() }.replay(case)),
        ("C17", "labels" | "labels-enum") => Ok(LabelEngine.replay(case)),
        _ => Err(format!("no case runner for {prop}/{engine}")),
    }
}

/// Only for the two termination properties is a watchdog hit a violation (DESIGN §6 C20).
pub fn timeout_is_violation(prop: &str) -> Option<&'static str> {
    match prop {
        "C13" => Some("slice()/slice_some() did not return within the watchdog (normal cost: microseconds)"),
        "C20" => Some("inspect()/Debug/v_print() did not return within the watchdog (normal cost: microseconds)"),
        _ => None,
    }
}

/// Exit codes that mean "the process was killed by a monitor" (sanitizer aborts use 134/SIGABRT
/// or exit code 1 with abort_on_error=0; we always run with abort_on_error=1 => signal).
pub fn crash_exit_is_violation(code: Option<i32>) -> bool {
    matches!(code, Some(134 | 139))
}


/// One libFuzzer iteration for property `prop` through the pass-through layer of its
/// main engine (C01..C05 and C07 have their own fixed byte layouts instead).
pub fn fuzz_bytes(prop: &str, data: &[u8]) -> Option<(Failure, Value)> {
    use crate::campaign::run_bytes;
    let t = Tier::Quick;
    let known = Known::load(prop);
    match prop {
        "C01" | "C02" | "C03" | "C04" | "C05" => crate::props::gc::fuzz_one(leak(prop), data).map(|f| (f, Value::Null)),
        "C07" => crate::props::asan::fuzz_one(data).map(|f| (f, Value::Null)),
        "C06" => run_bytes(&CyclesEngine { max_cycles: 120 }, t, data),
        "C08" => run_bytes(&TwinEngine { kind: TwinKind::SaveLoad }, t, data),
        "C09" => run_bytes(&PrefixEngine { all_prefixes: false }, t, data),
        "C10" => run_bytes(&TwinEngine { kind: TwinKind::Clone }, t, data),
        "C11" => run_bytes(&TreeEngine { extras: false }, t, data),
        "C12" => run_bytes(&TreeEngine { extras: true }, t, data),
        "C13" | "C18" | "C20" => run_bytes(&DiEngine { prop: leak(prop) }, t, data),
        "C14" => run_bytes(&ScriptEngine, t, data),
        "C15" => run_bytes(&HexEngine, t, data),
        "C16" => run_bytes(&ConcatEngine { tolerate: known.open.keys().cloned().collect() }, t, data),
        "C17" => run_bytes(&LabelEngine, t, data),
        "C19" => run_bytes(&MultiEngine, t, data),
        _ => None,
    }
}
