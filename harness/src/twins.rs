//! Hash twins: pairs of distinct short texts of equal length that collide under one of the cheap
//! 32-bit hash functions a memo table, an interner or a fingerprint is likely to use. A table that
//! trusts the hash (and the length) without comparing the key answers for one twin with what it
//! remembers of the other. Random texts meet such a pair with probability 2^-32 per pair; a
//! birthday search over 2^18 texts finds a few per function in milliseconds. The search is a pure
//! function of nothing (fixed enumeration), so the pairs are the same in every run.
//!
//! Used by C17 (parse A, then B: B must come back as B), C03/C08/C10/C13/C14/C18/C19/C20 through
//! the sweep dimension `hash-twins` (both twins as labels of one vertex and as data of two).

use std::collections::HashMap;
use std::hash::Hasher;
use std::sync::OnceLock;

#[derive(Debug, Clone)]
pub struct Twin {
    pub a: String,
    pub b: String,
    pub hash: &'static str,
}

fn fnv1a32(b: &[u8]) -> u64 {
    let mut h: u32 = 0x811c_9dc5;
    for x in b {
        h ^= u32::from(*x);
        h = h.wrapping_mul(0x0100_0193);
    }
    u64::from(h)
}
fn fnv1_32(b: &[u8]) -> u64 {
    let mut h: u32 = 0x811c_9dc5;
    for x in b {
        h = h.wrapping_mul(0x0100_0193);
        h ^= u32::from(*x);
    }
    u64::from(h)
}
fn fnv1a64(b: &[u8]) -> u64 {
    let mut h: u64 = 0xcbf2_9ce4_8422_2325;
    for x in b {
        h ^= u64::from(*x);
        h = h.wrapping_mul(0x0000_0100_0000_01b3);
    }
    h
}
fn djb2(b: &[u8]) -> u64 {
    let mut h: u32 = 5381;
    for x in b {
        h = h.wrapping_mul(33).wrapping_add(u32::from(*x));
    }
    u64::from(h)
}
fn djb2x(b: &[u8]) -> u64 {
    let mut h: u32 = 5381;
    for x in b {
        h = h.wrapping_mul(33) ^ u32::from(*x);
    }
    u64::from(h)
}
fn sdbm(b: &[u8]) -> u64 {
    let mut h: u32 = 0;
    for x in b {
        h = u32::from(*x).wrapping_add(h << 6).wrapping_add(h << 16).wrapping_sub(h);
    }
    u64::from(h)
}
fn java31(b: &[u8]) -> u64 {
    let mut h: u32 = 0;
    for x in b {
        h = h.wrapping_mul(31).wrapping_add(u32::from(*x));
    }
    u64::from(h)
}
fn crc32(b: &[u8]) -> u64 {
    let mut c: u32 = !0;
    for x in b {
        c ^= u32::from(*x);
        for _ in 0..8 {
            c = if c & 1 == 1 { (c >> 1) ^ 0xEDB8_8320 } else { c >> 1 };
        }
    }
    u64::from(!c)
}
fn murmur3_32(b: &[u8]) -> u64 {
    let (c1, c2) = (0xcc9e_2d51u32, 0x1b87_3593u32);
    let mut h: u32 = 0;
    let mut chunks = b.chunks_exact(4);
    for c in &mut chunks {
        let mut k = u32::from_le_bytes([c[0], c[1], c[2], c[3]]);
        k = k.wrapping_mul(c1).rotate_left(15).wrapping_mul(c2);
        h = (h ^ k).rotate_left(13).wrapping_mul(5).wrapping_add(0xe654_6b64);
    }
    let rem = chunks.remainder();
    let mut k: u32 = 0;
    for (i, x) in rem.iter().enumerate() {
        k |= u32::from(*x) << (8 * i);
    }
    if !rem.is_empty() {
        h ^= k.wrapping_mul(c1).rotate_left(15).wrapping_mul(c2);
    }
    h ^= b.len() as u32;
    h ^= h >> 16;
    h = h.wrapping_mul(0x85eb_ca6b);
    h ^= h >> 13;
    h = h.wrapping_mul(0xc2b2_ae35);
    h ^= h >> 16;
    u64::from(h)
}
fn jenkins(b: &[u8]) -> u64 {
    let mut h: u32 = 0;
    for x in b {
        h = h.wrapping_add(u32::from(*x));
        h = h.wrapping_add(h << 10);
        h ^= h >> 6;
    }
    h = h.wrapping_add(h << 3);
    h ^= h >> 11;
    h = h.wrapping_add(h << 15);
    u64::from(h)
}
fn sip_bytes(b: &[u8]) -> u64 {
    let mut h = std::collections::hash_map::DefaultHasher::new();
    h.write(b);
    h.finish()
}
fn sip_str(b: &[u8]) -> u64 {
    use std::hash::Hash;
    let mut h = std::collections::hash_map::DefaultHasher::new();
    std::str::from_utf8(b).unwrap_or("").hash(&mut h);
    h.finish()
}
fn fx64(b: &[u8]) -> u64 {
    const SEED: u64 = 0x51_7c_c1_b7_27_22_0a_95;
    let mut h: u64 = 0;
    let mut add = |i: u64| h = (h.rotate_left(5) ^ i).wrapping_mul(SEED);
    let mut r = b;
    while r.len() >= 8 {
        add(u64::from_le_bytes([r[0], r[1], r[2], r[3], r[4], r[5], r[6], r[7]]));
        r = &r[8..];
    }
    if r.len() >= 4 {
        add(u64::from(u32::from_le_bytes([r[0], r[1], r[2], r[3]])));
        r = &r[4..];
    }
    if r.len() >= 2 {
        add(u64::from(u16::from_le_bytes([r[0], r[1]])));
        r = &r[2..];
    }
    if let Some(x) = r.first() {
        add(u64::from(*x));
    }
    h
}

type H = (&'static str, fn(&[u8]) -> u64, u8);
/// (name, function, which 32 bits: 0 = low, 1 = high, 2 = xor-fold)
const FUNCS: &[H] = &[
    ("FNV-1a 32", fnv1a32, 0), ("FNV-1 32", fnv1_32, 0), ("FNV-1a 64, low 32 bits", fnv1a64, 0), ("FNV-1a 64, high 32 bits", fnv1a64, 1),
    ("FNV-1a 64, xor-folded", fnv1a64, 2), ("djb2", djb2, 0), ("djb2 (xor)", djb2x, 0), ("sdbm", sdbm, 0), ("31x+c (Java hashCode)", java31, 0),
    ("CRC-32", crc32, 0), ("MurmurHash3 32", murmur3_32, 0), ("Jenkins one-at-a-time", jenkins, 0),
    ("SipHash-1-3 zero key over the bytes, low 32 bits", sip_bytes, 0), ("SipHash-1-3 zero key over the bytes, high 32 bits", sip_bytes, 1),
    ("SipHash-1-3 zero key, str::hash, low 32 bits", sip_str, 0), ("SipHash-1-3 zero key, str::hash, high 32 bits", sip_str, 1),
    ("FxHash 64, low 32 bits", fx64, 0), ("FxHash 64, high 32 bits", fx64, 1),
];

fn cut(h: u64, which: u8) -> u32 {
    match which {
        0 => h as u32,
        1 => (h >> 32) as u32,
        _ => (h as u32) ^ ((h >> 32) as u32),
    }
}

fn text(i: u64, len: usize) -> String {
    // a fixed enumeration of lower-case texts (a multiplicative scramble of the index)
    let mut x = i.wrapping_mul(0x9E37_79B9_7F4A_7C15).wrapping_add(0x1234_5678_9ABC_DEF1);
    (0..len)
        .map(|_| {
            x ^= x >> 29;
            x = x.wrapping_mul(0xBF58_476D_1CE4_E5B9);
            (b'a' + ((x >> 33) % 26) as u8) as char
        })
        .collect()
}

/// Up to three pairs per hash function and text length (6 and 8 letters).
pub fn hash_twins() -> &'static Vec<Twin> {
    static T: OnceLock<Vec<Twin>> = OnceLock::new();
    T.get_or_init(|| {
        let mut out = vec![];
        for len in [6usize, 8] {
            let texts: Vec<String> = (0..300_000u64).map(|i| text(i, len)).collect();
            for (name, f, which) in FUNCS {
                let mut seen: HashMap<u32, usize> = HashMap::with_capacity(texts.len());
                let mut found = 0;
                for (i, t) in texts.iter().enumerate() {
                    let h = cut(f(t.as_bytes()), *which);
                    if let Some(j) = seen.get(&h) {
                        if texts[*j] != *t {
                            out.push(Twin { a: texts[*j].clone(), b: t.clone(), hash: name });
                            found += 1;
                            if found == 3 {
                                break;
                            }
                        }
                    } else {
                        seen.insert(h, i);
                    }
                }
            }
        }
        out
    })
}
