#!/usr/bin/env bash
# tools_seeded.sh <ID> <A|B> [check ids...]
# 1. validates a sub-agent's seeded change in ITS scratch worktree /tmp/wt/<ID>:
#    the library's tests pass with it, the demo fails with it and passes without it;
# 2. applies it to /repo (git apply), runs ./check for the owning property (and any other
#    ids given), undoes it straight afterwards (git checkout -- .);
# 3. stores patch + demo + meta.json under /verif/seeded/<ID>-<A|B>/.
set -u
ID="$1"; V="$2"; shift 2
CHECKS=("$@"); [ ${#CHECKS[@]} -eq 0 ] && CHECKS=("$ID")
BASE="${WT_BASE:-/tmp/wt}"; TAG="${TAG:-}"; WT=$BASE/$ID; S=$WT/SEEDED/$V
export CARGO_NET_OFFLINE=true
[ -f "$S/patch.diff" ] || { echo "no patch $S/patch.diff"; exit 2; }
cd "$WT" && git checkout -q -- . && rm -f tests/seeded_demo.rs
mkdir -p tests && cp "$S/demo.rs" tests/seeded_demo.rs
cargo test --offline --test seeded_demo > $BASE/$ID-$V-demo-clean.log 2>&1; demo_clean=$?
git apply "$S/patch.diff" || { echo "patch does not apply"; rm -f tests/seeded_demo.rs; exit 2; }
cargo test --offline --test seeded_demo > $BASE/$ID-$V-demo-patched.log 2>&1; demo_patched=$?
rm -f tests/seeded_demo.rs
cargo test --offline --workspace --no-fail-fast > $BASE/$ID-$V-suite.log 2>&1; suite=$?
git checkout -q -- .
echo "$ID-$V: suite_with_patch=$suite demo_clean=$demo_clean demo_patched=$demo_patched"
if [ $suite -ne 0 ] || [ $demo_clean -ne 0 ] || [ $demo_patched -eq 0 ]; then echo "$ID-$V: NOT VALID (kept out)"; exit 3; fi
# run my checks against /repo with the change applied
cd /verif
[ -z "$(git -C /repo status --porcelain)" ] || { echo "/repo not clean"; exit 2; }
EVBAK=$(mktemp -d /verif/target/evbak-XXXXXX); cp -a /verif/evidence/. "$EVBAK/"   # the evidence of runs on a CHANGED tree must never replace the real one
git -C /repo apply "$S/patch.diff" || exit 2
results=()
for c in "${CHECKS[@]}"; do
  start=$(date +%s)
  ./check "$c" quick > $BASE/$ID-$V-check-$c.log 2>&1; code=$?
  secs=$(( $(date +%s) - start ))
  first=$(grep -m1 -A1 '^VIOLATION' $BASE/$ID-$V-check-$c.log | tail -1 | python3 -c 'import sys; print(sys.stdin.read().strip()[:160])')
  results+=("{\"check\": \"$c\", \"exit\": $code, \"seconds\": $secs, \"first_violation\": $(python3 -c 'import json,sys; print(json.dumps(sys.argv[1]))' "$first")}")
  echo "  check $c -> exit $code in ${secs}s  $first"
done
git -C /repo checkout -- .
rm -rf /verif/evidence; mkdir -p /verif/evidence; cp -a "$EVBAK/." /verif/evidence/; rm -rf "$EVBAK"
rm -rf /verif/replays/*/found
D=/verif/seeded/$ID-$TAG$V; mkdir -p "$D"
cp "$S/patch.diff" "$D/patch.diff"; cp "$S/demo.rs" "$D/demo.rs"; cp "$S/notes.md" "$D/notes.md" 2>/dev/null
python3 - "$ID" "$V" "$D" "$(IFS=,; echo "${results[*]}")" <<'PY'
import json, sys
i, v, d, res = sys.argv[1:5]
notes = open(d + '/notes.md').read() if __import__('os').path.exists(d + '/notes.md') else ''
meta = {
  'property': i, 'variant': v,
  'origin': 'written by a fresh sub-agent that saw only the property text and its own scratch worktree of /repo' + (' (round 2: asked for changes that need deep or rare conditions)' if 'H' in d.split('-')[-1] else ''),
  'validated': 'library suite passes with the patch (94 unit + 42 doc tests); demo.rs (as tests/seeded_demo.rs) fails with the patch and passes without it — run in the scratch worktree by tools_seeded.sh',
  'needs_to_manifest': notes[:1500],
  'checks_run': json.loads('[' + res + ']'),
  'how_run': 'git -C /repo apply patch.diff; ./check <id> quick; git -C /repo checkout -- .',
}
json.dump(meta, open(d + '/meta.json', 'w'), indent=1, ensure_ascii=False)
PY
