#!/usr/bin/env bash
# thorough tier of the properties whose main engine is also driven by libFuzzer through the
# pass-through layer (fuzz/pt): the normal thorough run, then a coverage-guided stage, then
# the two evidence files are merged.
set -u
cd "$(dirname "$0")/.."
ID="$1"
export CARGO_NET_OFFLINE=true
T=/verif/target
rc=0
./target/checked/svcheck check "$ID" --tier thorough --evidence-out $T/$ID-main.json; c=$?
[ $c -eq 1 ] && rc=1; [ $c -ge 2 ] && [ $rc -eq 0 ] && rc=2
rm -f $T/$ID-fuzz.json
if cargo +nightly fuzz build --fuzz-dir /verif/fuzz pt > $T/build-fuzz-pt.log 2>&1; then
  FUZZ_RUNS="${FUZZ_RUNS:-20000}" ./checks.d/fuzz-stage.sh pt "$ID" "${VERIF_SEED:-20260926}" $T/$ID-fuzz.json; c=$?
  [ $c -eq 1 ] && rc=1; [ $c -ge 2 ] && [ $rc -eq 0 ] && rc=2
else
  echo "INCONCLUSIVE: cargo fuzz build failed" >&2; tail -20 $T/build-fuzz-pt.log >&2; [ $rc -eq 0 ] && rc=2
fi
python3 - "$ID" $T/$ID-main.json $T/$ID-fuzz.json <<'PY'
import json, sys
i, a, c = sys.argv[1:4]
try:
    ev = json.load(open(a))
except Exception:
    sys.exit(0)
try:
    z = json.load(open(c))
    ev['coverage']['evaluations'] += z['executed_units']
    ev['coverage']['engines']['libfuzzer-pt'] = z
    ev['violations'] = ev.get('violations', 0) + z.get('crashes', 0)
except Exception:
    ev['coverage']['libfuzzer_note'] = 'coverage-guided stage did not run'
json.dump(ev, open(f'/verif/evidence/{i}.json', 'w'), indent=1, ensure_ascii=False)
PY
exit $rc
