#!/usr/bin/env bash
# fuzz-stage.sh <target: seq|gc> <property> <VERIF_SEED> <report.json>
# libFuzzer campaign: 16 processes of fuzz/<target>, each a fixed -runs on its own corpus
# directory (8 start from 200 generated seed inputs, 8 from an empty corpus), -seed derived
# from VERIF_SEED. A crash (sanitizer report or failed oracle) leaves an artifact which
# becomes the replay file. Writes a small JSON report. Exit 0/1/2. Each process also stops after
# FUZZ_MAX_SECONDS (default 600): reaching it only means fewer executed units (reported), never a verdict.
set -u
TARGET="$1"; PROP="$2"; SEED="$3"; OUT="$4"
cd /verif
BIN=/verif/fuzz/target/x86_64-unknown-linux-gnu/release/$TARGET
RUNS="${FUZZ_RUNS:-40000}"
export SVFUZZ_PROP="$PROP"
export ASAN_OPTIONS=detect_leaks=0:abort_on_error=1:symbolize=1
W=$(mktemp -d /dev/shm/svfuzz-XXXXXX 2>/dev/null || mktemp -d /verif/target/svfuzz-XXXXXX)
mkdir -p "$W/seeds" /verif/replays/$PROP/found
KIND=""; [ "$TARGET" = gc ] && KIND=gc
VERIF_SEED="$SEED" ./target/checked/svcheck gen-corpus "$W/seeds" 200 $KIND || exit 2
pids=()
for i in $(seq 0 15); do
  mkdir -p "$W/c$i" "$W/a$i"
  if [ $((i % 2)) -eq 0 ]; then cp "$W/seeds"/* "$W/c$i/"; fi
  s=$(( (SEED % 1000000) * 16 + i + 1 ))
  "$BIN" "$W/c$i" -runs="$RUNS" -seed="$s" -len_control=0 -max_len=1100 -rss_limit_mb=8000 -timeout=120 -max_total_time="${FUZZ_MAX_SECONDS:-600}" \
     -artifact_prefix="$W/a$i/" -print_final_stats=1 >"$W/log$i" 2>&1 &
  pids+=($!)
done
fail=0; infra=0; execs=0
for i in $(seq 0 15); do
  wait "${pids[$i]}"; code=$?
  n=$(grep -a 'stat::number_of_executed_units' "$W/log$i" | awk '{print $2}'); execs=$((execs + ${n:-0}))
  if [ "$code" -ne 0 ]; then
    art=$(ls "$W/a$i"/crash-* "$W/a$i"/oom-* "$W/a$i"/timeout-* 2>/dev/null | head -1)
    if [ -n "$art" ] && [[ "$art" == *crash-* ]]; then
      dst=/verif/replays/$PROP/found/fuzz-$(basename "$art")
      cp "$art" "$dst"
      echo "VIOLATION property=$PROP replay=$dst"
      grep -a -m3 -E 'ERROR: AddressSanitizer|oracle failed|SUMMARY' "$W/log$i" | sed 's/^/  /'
      fail=1
    else
      echo "INCONCLUSIVE: fuzz process $i ended with $code without a crash artifact (oom/timeout/infrastructure)" >&2
      tail -5 "$W/log$i" >&2
      infra=1
    fi
  fi
done
corp=$(du -cb "$W"/c* 2>/dev/null | tail -1 | cut -f1)
files=$(ls "$W"/c*/ 2>/dev/null | wc -l)
sample=$(ls "$W/c0" | head -1)
samplehex=$(head -c 64 "$W/c0/$sample" 2>/dev/null | od -An -tx1 | tr -d ' \n')
cat > "$OUT" <<JSON
{"engine": "libfuzzer-'"$TARGET"'", "property": "'"$PROP"'", "processes": 16, "runs_per_process": $RUNS, "executed_units": $execs,
 "corpus_files_at_end": $files, "corpus_bytes_at_end": $corp, "crashes": $fail,
 "sample_input_hex_prefix": "$samplehex", "seed": $SEED}
JSON
rm -rf "$W"
if [ "$fail" -ne 0 ]; then exit 1; fi
if [ "$infra" -ne 0 ]; then exit 2; fi
exit 0
