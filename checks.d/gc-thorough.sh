#!/usr/bin/env bash
# thorough tier of C01..C06: the normal thorough run in the `checked` build, then the same
# generators in the `fast` build (plain release semantics: no debug assertions, wrapping
# arithmetic), then the two evidence files are merged.
set -u
cd "$(dirname "$0")/.."
ID="$1"
export CARGO_NET_OFFLINE=true
T=/verif/target
rc=0
./target/checked/svcheck check "$ID" --tier thorough --evidence-out $T/$ID-checked.json; c=$?
[ $c -eq 1 ] && rc=1; [ $c -ge 2 ] && [ $rc -eq 0 ] && rc=2
if (cd harness && cargo build --profile fast > $T/build-fast.log 2>&1); then
  SVCHECK_FAST_BUILD=1 SVCHECK_WORKER_EXE=$T/fast/svcheck ./target/checked/svcheck check "$ID" --tier thorough --no-replays --evidence-out $T/$ID-fast.json; c=$?
  [ $c -eq 1 ] && rc=1; [ $c -ge 2 ] && [ $rc -eq 0 ] && rc=2
else
  echo "INCONCLUSIVE: fast build failed" >&2; tail -20 $T/build-fast.log >&2; rm -f $T/$ID-fast.json; [ $rc -eq 0 ] && rc=2
fi
# coverage-guided stage (C01..C05): libFuzzer + ASan on fuzz/gc with this property's oracle in the target
rm -f $T/$ID-fuzz.json
if [ "$ID" != C06 ]; then
  if cargo +nightly fuzz build --fuzz-dir /verif/fuzz gc > $T/build-fuzz-gc.log 2>&1; then
    FUZZ_RUNS="${FUZZ_RUNS:-30000}" ./checks.d/fuzz-stage.sh gc "$ID" "${VERIF_SEED:-20260926}" $T/$ID-fuzz.json; c=$?
    [ $c -eq 1 ] && rc=1; [ $c -ge 2 ] && [ $rc -eq 0 ] && rc=2
  else
    echo "INCONCLUSIVE: cargo fuzz build failed" >&2; tail -20 $T/build-fuzz-gc.log >&2; [ $rc -eq 0 ] && rc=2
  fi
fi
python3 - "$ID" $T/$ID-checked.json $T/$ID-fast.json $T/$ID-fuzz.json <<'PY'
import json, sys
i, a, b, c = sys.argv[1:5]
try:
    ev = json.load(open(a))
except Exception:
    sys.exit(0)
try:
    f = json.load(open(b))
    cov = ev['coverage']
    cov['evaluations'] += f['coverage']['evaluations']
    cov['engines'].update({'fast-build:' + k: v for k, v in f['coverage']['engines'].items()})
    cov['fast_build_note'] = 'the fast-build cases repeat the generator family under release semantics; they are not added to distinct_nontrivial'
    ev['violations'] = ev.get('violations', 0) + f.get('violations', 0)
    ev['wall_s'] += f['wall_s']
except Exception:
    ev['coverage']['fast_build_note'] = 'fast build stage did not run'
try:
    z = json.load(open(c))
    ev['coverage']['evaluations'] += z['executed_units']
    ev['coverage']['engines']['libfuzzer-gc'] = z
    ev['violations'] = ev.get('violations', 0) + z.get('crashes', 0)
except Exception:
    pass
json.dump(ev, open(f'/verif/evidence/{i}.json', 'w'), indent=1, ensure_ascii=False)
PY
exit $rc
