#!/usr/bin/env python3
"""Merge the evidence of the three C07 thorough stages into evidence/C07.json."""
import json, sys, os
asan, msan, fuzz, rc = sys.argv[1], sys.argv[2], sys.argv[3], int(sys.argv[4])
def load(p):
    try:
        return json.load(open(p))
    except Exception:
        return None
a, m, f = load(asan), load(msan), load(fuzz)
if a is None:
    sys.exit(0)
ev = a
cov = ev['coverage']
cov['stages'] = {'asan': 'ran'}
if m is not None:
    cov['evaluations'] += m['coverage']['evaluations']
    cov['distinct_nontrivial'] += 0  # the MSan stage replays the same generator family: not counted as new distinct cases
    cov['engines'].update({'msan:' + k: v for k, v in m['coverage']['engines'].items()})
    ev['violations'] = ev.get('violations', 0) + m.get('violations', 0)
    ev['wall_s'] += m['wall_s']
    cov['stages']['msan'] = 'ran'
else:
    cov['stages']['msan'] = 'not run (build failed)'
if f is not None:
    cov['evaluations'] += f['executed_units']
    cov['engines']['libfuzzer-seq'] = f
    ev['violations'] = ev.get('violations', 0) + f.get('crashes', 0)
    cov['stages']['libfuzzer'] = 'ran'
else:
    cov['stages']['libfuzzer'] = 'not run (build failed)'
ev['stage_exit_code'] = rc
json.dump(ev, open('/verif/evidence/C07.json', 'w'), indent=1, ensure_ascii=False)
