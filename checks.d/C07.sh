#!/usr/bin/env bash
# C07: the generated sequences run inside sanitizer builds of the harness.
#   quick:    AddressSanitizer build of svcheck (debug assertions on) runs engine asan-seq (8 000 sequences)
#   thorough: asan-seq with 64 000 sequences, the same engine in a MemorySanitizer build (8 000),
#             and a libFuzzer+ASan campaign (16 processes x fixed -runs) on the byte-level target fuzz/seq
# exit 0 held / 1 VIOLATION / 2 inconclusive
set -u
cd "$(dirname "$0")/.."
MODE="${1:-quick}"
SEED="${VERIF_SEED:-20260926}"
export CARGO_NET_OFFLINE=true
export ASAN_OPTIONS=detect_leaks=0:abort_on_error=1:symbolize=1
export MSAN_OPTIONS=abort_on_error=1
T=/verif/target
ASAN_BIN=$T/asan/x86_64-unknown-linux-gnu/checked/svcheck
MSAN_BIN=$T/msan/x86_64-unknown-linux-gnu/checked/svcheck
mkdir -p $T
build() { # name, command...
  local name="$1"; shift
  local log="$T/build-$name.log"
  if ! "$@" >"$log" 2>&1; then
    echo "INCONCLUSIVE: $name build failed" >&2; tail -40 "$log" >&2; return 2
  fi
}
build asan bash -c 'cd harness && RUSTFLAGS="-Zsanitizer=address" cargo +nightly build --profile checked --target x86_64-unknown-linux-gnu --target-dir /verif/target/asan' || exit 2
if [ "$MODE" = quick ]; then
  SVCHECK_WORKER_EXE="$ASAN_BIN" exec ./target/checked/svcheck check C07 --tier quick --only-sub asan-seq,dimension-sweeps
fi

# ------------------------------------------------------------------ thorough
rc=0
run_stage() { # name, exit code
  if [ "$2" -eq 1 ]; then rc=1; elif [ "$2" -ne 0 ] && [ "$rc" -eq 0 ]; then rc=2; fi
}
# stage 1: ASan
SVCHECK_WORKER_EXE="$ASAN_BIN" ./target/checked/svcheck check C07 --tier thorough --only-sub asan-seq,dimension-sweeps --evidence-out $T/C07-asan.json
run_stage asan $?
# stage 2: MSan (uninitialised reads)
if build msan bash -c 'cd harness && RUSTFLAGS="-Zsanitizer=memory" cargo +nightly build -Zbuild-std --profile checked --target x86_64-unknown-linux-gnu --target-dir /verif/target/msan'; then
  SVCHECK_WORKER_EXE="$MSAN_BIN" ./target/checked/svcheck check C07 --tier thorough --only-sub msan-seq --no-replays --evidence-out $T/C07-msan.json
  run_stage msan $?
else
  rm -f $T/C07-msan.json; run_stage msan 2
fi
# stage 3: libFuzzer + ASan on the byte-level target
if build fuzz cargo +nightly fuzz build --fuzz-dir /verif/fuzz seq; then
  ./checks.d/fuzz-stage.sh seq C07 "$SEED" $T/C07-fuzz.json
  run_stage fuzz $?
else
  rm -f $T/C07-fuzz.json; run_stage fuzz 2
fi
python3 ./checks.d/C07-merge.py $T/C07-asan.json $T/C07-msan.json $T/C07-fuzz.json "$rc" || true
exit $rc
