#!/usr/bin/env python3
"""Regenerates MANIFEST.json from the table below (kept next to the checks so that the
manifest cannot drift from what ./check implements)."""
import json, os
root = os.path.dirname(os.path.abspath(__file__))
props = [json.loads(l) for l in open(os.path.join(root, 'properties.jsonl'))]

T = {
 # id: (engine, category, level text, level note, technique)
 'C01': ('gcmodel', 'exploration',
         'Generated stateful histories (all call kinds of the statement, every N in 1..=16, capacities 2..256) with a model-independent invariant over the call history evaluated after every call. Exploration only: held on everything generated; the evidence file says how many histories, how many non-trivial, and shows samples. Plus bounded-exhaustive dimension sweeps (capacity, id, alpha index, byte values, datum length, group shape, edge count, label character) on a fixed scenario under the same oracle.',
         'trusted: interpreter + history bookkeeping (harness/src/interp.rs Hist), proptest generators; bounds: <=80 generated calls + drain epilogue per history',
         'stateful property-based testing with proptest; oracle = invariant over the call history; failures shrunk (value tree + ddmin) to a JSON replay'),
 'C02': ('gcmodel', 'exploration',
         'Generated stateful histories compared after every call with an independent executable reference model (alive set), including a drain epilogue that turns latent counter drift into an observable difference and probes every free group slot. Exploration only. Plus bounded-exhaustive dimension sweeps (capacity, id, alpha index, byte values, datum length, group shape, edge count, label character) on a fixed scenario under the same oracle.',
         'trusted: reference model harness/src/model.rs; bounds as C01; builds with debug assertions and overflow checks',
         'model-based stateful property testing (proptest histories vs reference model), shrunk to a JSON replay'),
 'C03': ('gcmodel', 'exploration',
         'Generated histories; after every call every present vertex is queried (kids, kid per bound label and probe labels, data marker) and every data() result is compared with the reference model. Exploration only. Plus bounded-exhaustive dimension sweeps (capacity, id, alpha index, byte values, datum length, group shape, edge count, label character) on a fixed scenario under the same oracle. One case in four and every sweep scenario also run quietly (nothing asked between the history\'s own queries).',
         'trusted: reference model; labels from a fixed pool of all three variants, built directly and through from_str; data lengths 0..40',
         'model-based stateful property testing, per-call full-observation oracle'),
 'C04': ('gcmodel', 'exploration',
         'Generated re-add-heavy histories; blankness oracle after add on absent ids (kid() probed for every label the collected vertex had, data marker, later reads), and a metamorphic relation (deleting every add of a present id leaves the whole observation trace unchanged). Exploration only. Plus bounded-exhaustive dimension sweeps (capacity, id, alpha index, byte values, datum length, group shape, edge count, label character) on a fixed scenario under the same oracle.',
         'trusted: reference model for the absent/present judgement; the metamorphic part compares the implementation with itself',
         'stateful property testing with a metamorphic oracle (delete the re-add) plus reference model'),
 'C05': ('gcmodel', 'exploration',
         'Generated allocator-heavy histories (next_id, explicit adds around the allocator, collections, clone, merge, script variables); freshness invariant over the history. Exploration only. Plus bounded-exhaustive dimension sweeps (capacity, id, alpha index, byte values, datum length, group shape, edge count, label character) on a fixed scenario under the same oracle. Plus one script of 80 000 / 160 000 distinct variables per worker (every name must get an id of its own).',
         'trusted: history bookkeeping; next_id generated only inside its documented domain (an absent id at or above the allocator position remains)',
         'stateful property testing; oracle = invariant over the history of returned ids'),
 'C06': ('cycles', 'exploration',
         'Long generated histories of hundreds to thousands of create-fill-read cycles over a rotating id window with 0..13 long-lived groups and overlapping cycles; the alive set is compared with the reference model after every call, so a slot that is not handed back or handed back while referenced shows as soon as the 14 slots wrap. One case in 4 also runs the cycles through one re-deployed Script object (id-agnostic oracle).',
         'trusted: reference model; bounds: quick 40..300 cycles per history, thorough up to 3000; capacities 8..256',
         'model-based stateful property testing with a structured (cycle/scheduler) generator'),
 'C07': ('asan-seq', 'exploration',
         'Generated call sequences (in-domain histories ended by exactly one limit overrun that must panic; anything-goes sequences with tolerated panics, incl. a group-exhaustion scenario at large ids and calls of the Hex/Label value-type API) executed inside an AddressSanitizer build with debug assertions; thorough adds a MemorySanitizer build and a coverage-guided libFuzzer+ASan campaign on a byte-level target with the same oracle inside. Plus bounded-exhaustive dimension sweeps (capacity, id, alpha index, byte values, datum length, group shape, edge count, label character) on a fixed scenario under the same oracle.',
         'trusted: the sanitizers; ASan cannot see uninitialised reads (MSan stage in thorough only) nor out-of-bounds accesses that land inside another live allocation; claimed for builds with debug assertions',
         'property-based sequence generation + coverage-guided fuzzing (cargo-fuzz/libFuzzer) under ASan/MSan with the panic-contract oracle in the target'),
 'C08': ('twin', 'exploration',
         'Differential twin runs: g built by a generated history, g2 = load(save(g)) through a real file; complete observations must agree and a generated continuation plus drain epilogue on both must produce identical traces (results, collections, all query outputs). Exploration only. Plus bounded-exhaustive dimension sweeps (capacity, id, alpha index, byte values, datum length, group shape, edge count, label character) on a fixed scenario under the same oracle. Save paths hold older, longer checkpoints; checkpoints and slices through dangling edges in the histories.',
         'trusted: the interpreter; the comparison is implementation vs implementation; allocator-dependent calls are generated only when the one permitted difference (allocator restart) cannot show',
         'differential (round-trip twin) stateful property testing with proptest-generated histories and continuations'),
 'C09': ('prefixes', 'fault_enumeration',
         'Every cut point of the image of generated graphs is enumerated (all of them in thorough; all for images <= 4096 bytes in quick) and load() must return Err on each; the complete image must load (control). Plus bounded-exhaustive dimension sweeps (capacity, id, alpha index, byte values, datum length, group shape, edge count, label character) on a fixed scenario under the same oracle. The save path holds an older checkpoint (junk or a valid image) beforehand.',
         'fault model: a crash leaves a byte prefix of the image; load() called with the N used for save()',
         'fault enumeration (every truncation point) over proptest-generated graphs'),
 'C10': ('twin', 'exploration',
         'Differential twin runs original vs clone (made by clone() or by clone_from() into another store, bigger and with vertices of its own, or older) with identical continuations (incl. next_id and merge), plus an independence check: mutating one copy leaves the complete observation of the other unchanged and the other still drains exactly as the reference model says. Plus bounded-exhaustive dimension sweeps (capacity, id, alpha index, byte values, datum length, group shape, edge count, label character) on a fixed scenario under the same oracle.',
         'trusted: the interpreter and, for the independence drain, the reference model',
         'differential twin stateful property testing (original vs clone), metamorphic independence check'),
 'C11': ('treegen', 'exploration',
         'Generated pairs of trees built through the API (random shapes, wide stars, many-group chains, identical/read data on both sides, stores without a spare slot) plus every pair of trees up to 3 (quick) / 4 (thorough) vertices enumerated; the result of merge() is explained path-wise as a graft by an independent walk, compared vertex by vertex with the reference model that performed the equivalent add/bind/put calls, and drained through the epilogue (data bytes, collections). Plus a bounded-exhaustive sweep of chain depths 1..=140 / 200.',
         'trusted: reference model and graft() in harness/src/interp.rs; trees <= 8 vertices, labels from a pool of 4; merges that would exceed a limit are skipped and counted',
         'property-based testing over generated tree pairs; oracle = independent path-wise graft + reference model'),
 'C12': ('treegen', 'exploration',
         'Generated right graphs = tree + unreachable extras (isolated, detached sub-trees, ancestors of `right`); Ok iff no extras, otherwise Err naming every unreachable present vertex. Plus a bounded-exhaustive sweep of chain depths 1..=140 / 200 with 0..=3 unreachable extras.',
         'trusted: the generator knows which right vertices are unreachable by construction',
         'property-based testing over generated graph pairs; oracle = reachability by construction'),
 'C13': ('digraph', 'exploration',
         'Generated digraphs (cycles, shared targets, parallel labels, fans with N or N-1 labels on one vertex for N up to 32) and post-collection history graphs; every present start vertex; slice and slice_some under generated predicates compared with an independent BFS on the reference model; source unchanged; non-termination detected by stack overflow / per-case watchdog. Plus bounded-exhaustive dimension sweeps (capacity, id, alpha index, byte values, datum length, group shape, edge count, label character) on a fixed scenario under the same oracle.',
         'trusted: reference model edges, BFS in harness/src/props/digraph.rs; <=14 reachable vertices as the property requires',
         'property-based testing over generated digraphs; oracle = independent reachability computation'),
 'C14': ('scriptgen', 'exploration',
         'Differential twin: deploy_to(text) vs the direct API calls for generated programs (literal ids and $variables with names up to 14 characters, on empty graphs and on graphs with a generated history incl. dangling edges) under generated legal formatting; single-fault corruptions are classified by an independent strict parser (well-formed / malformed at command k / unspecified) and judged accordingly (Err without panic, prefix applied). Plus bounded-exhaustive dimension sweeps (capacity, id, alpha index, byte values, datum length, group shape, edge count, label character) on a fixed scenario under the same oracle. Plus one script of 80 000 / 160 000 distinct variables per worker against add(next_id()) per variable.',
         'trusted: the strict parser of the documented grammar (harness/src/props/script.rs); unspecified syntax is skipped and counted',
         'grammar-based generation + differential twin (script vs calls) + fault injection classified by an independent parser'),
 'C15': ('hexenum', 'exploration',
         'Differential against Rust slice semantics: for generated contents, every length 0..=12 in three representations and the complete index/range space up to 14 plus usize::MAX ends; equal result or both panic; single-bit inequality for every bit of lengths 1..=9; exhausted inclusive ranges; long strings up to 65 537 bytes at sampled positions. The index space is exhaustive per content, the contents are sampled. Plus a bounded-exhaustive sweep of every length up to 2100 / 9000.',
         'trusted: Rust slice indexing as the oracle; bounds: lengths <=12, indices <=14 and the two largest usize',
         'bounded-exhaustive enumeration of the index space over proptest-generated contents; differential oracle (byte slice)'),
 'C16': ('concatenum', 'exploration',
         'For generated contents every pair of lengths 0..=12 x 0..=12 in 3x3 representations is concatenated and compared with Vec concatenation; operands must stay unchanged. One open known finding (exact signature) is reported as KNOWN-FINDING and excluded so that the search continues. Plus a bounded-exhaustive sweep of operand length pairs (square up to 96 / 200, strips up to 4200 / 20000).',
         'trusted: Vec concatenation as the oracle; known_findings.json signature concat.inline_spill_padding',
         'bounded-exhaustive enumeration of the length space over proptest-generated contents; oracle = byte concatenation'),
 'C18': ('digraph', 'exploration',
         'Generated graphs (digraph builder and histories with collections); XML parsed with sxd-document and DOT with a line grammar, compared with the reference model (node set in ascending order, edges, data); metamorphic rebuild of the same present graph in another way must give byte-identical text; a bounded-exhaustive sweep of datum lengths (0..=9000 quick / 0..=40000 thorough and windows around 64 KiB..1 MiB) through both exporters. Plus bounded-exhaustive dimension sweeps (capacity, id, alpha index, byte values, datum length, group shape, edge count, label character) on a fixed scenario under the same oracle.',
         'trusted: reference model; sxd-document parser; the DOT line grammar of src/dot.rs',
         'property-based testing; parse-back oracle against the reference model + metamorphic rebuild'),
 'C20': ('digraph', 'exploration',
         'Generated graphs as C13; inspect() parsed by indentation and compared with the reachable edge multiset (exactly once each), v_print and Debug/Display parsed and compared with the reference model; termination by stack overflow detection / per-case watchdog. Plus bounded-exhaustive dimension sweeps (capacity, id, alpha index, byte values, datum length, group shape, edge count, label character) on a fixed scenario under the same oracle.',
         'trusted: reference model; the text parsers in harness/src/props/digraph.rs; what is printed beneath an edge to a collected vertex is not judged',
         'property-based testing over generated digraphs; parse-back oracle against the reference model'),
 'C19': ('multi-config', 'exploration',
         'The same generated history (incl. slice_some under fixed predicates from every eligible vertex, clone_from into another store) is replayed twice in one process, in another process (sampled) and under a second (N, capacity) configuration; complete observation traces incl. kids() order, next_id results and merge-created ids must be identical. Plus bounded-exhaustive dimension sweeps (capacity, id, alpha index, byte values, datum length, group shape, edge count, label character) on a fixed scenario under the same oracle.',
         'differential: implementation vs itself; histories generated inside the limits of the smaller configuration',
         'differential replay across runs, processes and configurations of proptest-generated histories'),
 'C17': ('labels', 'exploration',
         'All texts up to length 4 (quick) / 5 (thorough) over a 14-symbol alphabet enumerated completely, longer and arbitrary-unicode texts generated, α indices around every power of ten and two; round trips in both directions, injectivity, rejection, and a graph lookup under parsed vs constructed labels. Plus a sweep over every Unicode scalar value as a label character and every alpha index up to 100000 / 2000000.',
         'trusted: the independent classifier of the documented text grammar (classify_text in harness/src/props/hexlab.rs); unspecified texts are skipped and counted',
         'bounded-exhaustive text enumeration + proptest-generated texts; round-trip / injectivity oracles'),
}

claimed = [p['id'] for p in props if p['id'] in T]
checks = []
for p in props:
    i = p['id']
    if i not in T:
        continue
    eng, cat, text, note, tech = T[i]
    if i != 'C07':
        text += (' Plus the bounded-exhaustive sub-campaign echo-sweeps (metamorphic: the answer of every API call this property is about is unchanged by 1..65 537 of the same calls on another graph in between, agrees between a graph that was looked at earlier and one that was not after up to 65 537 identical mutations, and is unchanged by 20 kinds of foreign activity on the same thread incl. failing parses, sinks, saves, loads, merges and scripts)'
                 + ('; generated histories also contain foreign activity between the calls (Call::Noise), a stretch during which another graph lives at the same address (Call::Masquerade), and one case in four is run again blind (no keys() around the calls, one complete look at the end).' if eng in ('gcmodel', 'twin', 'multi-config', 'digraph', 'prefixes', 'cycles') else '.'))
        tech += '; metamorphic echo sweeps (bounded-exhaustive repeat counts, earlier looks, injected faults on the same thread)'
    checks.append({
        'property_id': i,
        'quick_cmd': f'./check {i} quick',
        'thorough_cmd': f'./check {i} thorough',
        'evidence_file': f'/verif/evidence/{i}.json',
        'replay_cmd_template': f'./check {i} --replay {{path}}',
        'engine': eng,
        'level_claimed': {'category': cat, 'text': text, 'design_ref': f'DESIGN.md §6 {i}'},
        'level_note': note,
        'technique': tech,
    })
na = [{'property_id': p['id'], 'reason': 'not claimed'} for p in props if p['id'] not in T]
engines = {}
for i in claimed:
    engines.setdefault(T[i][0], []).append(i)
paths = {'cycles': 'harness/src/props/cycles.rs', 'asan-seq': 'harness/src/props/asan.rs + fuzz/fuzz_targets/seq.rs + checks.d/C07*.sh', 'digraph': 'harness/src/props/digraph.rs', 'treegen': 'harness/src/props/trees.rs', 'scriptgen': 'harness/src/props/script.rs', 'twin': 'harness/src/props/twin.rs', 'prefixes': 'harness/src/props/prefixes.rs', 'multi-config': 'harness/src/props/multi.rs', 'gcmodel': 'harness/src/engine.rs', 'hexenum': 'harness/src/props/hexlab.rs', 'concatenum': 'harness/src/props/hexlab.rs', 'labels': 'harness/src/props/hexlab.rs'}
m = {
    'version': 1,
    'setup_cmd': './setup.sh',
    'hooks': {
        'guard': 'cargo feature `verif` of sodg',
        'enable': 'harness/Cargo.toml depends on sodg = { path = "/repo", features = ["verif"] }; the feature only adds src/verif.rs (read-only Sodg::verif_snapshot())',
        'baseline_off_cmd': 'cd /repo && cargo test --workspace --no-fail-fast --offline',
        'source_commits': ['aba2e07'],
        'add_only': True,
    },
    'engines': [{'name': k, 'path': paths.get(k, 'harness/src'), 'serves_properties': v,
                 'kind_free_text': 'property-based / bounded-exhaustive generated search with an explicit oracle (see DESIGN.md §3, §6)'} for k, v in engines.items()],
    'checks': checks,
    'not_applicable': na,
    'notes': 'Approach: DESIGN.md. Fixed and open findings: known_findings.json. Regression corpus replayed first by every check: replays/<ID>/*.json. Exit 0 held / 1 VIOLATION / 2 inconclusive (infrastructure).',
}
json.dump(m, open(os.path.join(root, 'MANIFEST.json'), 'w'), indent=1, ensure_ascii=False)
print('claimed', claimed)
