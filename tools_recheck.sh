#!/usr/bin/env bash
# tools_recheck.sh <seeded dir name> [check ids...]: apply seeded/<dir>/patch.diff to /repo, run the
# given quick checks (default: the owning property), undo; append the outcome to meta.json.
set -u
D=/verif/seeded/$1; shift
ID=$(python3 -c "import json,sys; print(json.load(open('$D/meta.json'))['property'])")
CHECKS=("$@"); [ ${#CHECKS[@]} -eq 0 ] && CHECKS=("$ID")
cd /verif
[ -z "$(git -C /repo status --porcelain)" ] || { echo "/repo not clean"; exit 2; }
EVBAK=$(mktemp -d /verif/target/evbak-XXXXXX); cp -a /verif/evidence/. "$EVBAK/"   # the evidence of runs on a CHANGED tree must never replace the real one
git -C /repo apply "$D/patch.diff" || exit 2
for c in "${CHECKS[@]}"; do
  start=$(date +%s)
  ./check "$c" quick > /tmp/recheck.log 2>&1; code=$?
  secs=$(( $(date +%s) - start ))
  first=$(grep -m1 -A1 '^VIOLATION' /tmp/recheck.log | tail -1 | python3 -c 'import sys; print(sys.stdin.read().strip()[:160])')
  echo "$(basename $D): check $c -> exit $code in ${secs}s  $first"
  python3 - "$D/meta.json" "$c" "$code" "$secs" "$first" "$(git -C /verif rev-parse --short HEAD)" <<'PY'
import json, sys
p, c, code, secs, first, head = sys.argv[1:7]
m = json.load(open(p))
m.setdefault('rechecks', []).append({'check': c, 'exit': int(code), 'seconds': int(secs), 'first_violation': first, 'harness_commit_or_later': head})
json.dump(m, open(p, 'w'), indent=1, ensure_ascii=False)
PY
done
git -C /repo checkout -- .
rm -rf /verif/evidence; mkdir -p /verif/evidence; cp -a "$EVBAK/." /verif/evidence/; rm -rf "$EVBAK"
rm -rf /verif/replays/*/found /tmp/recheck.log
