#!/usr/bin/env bash
# tools_seeds.sh <from> <to> [ids...]: run every quick check on the unchanged tree under several
# VERIF_SEED values (fresh processes) and report every non-zero exit (false-alarm hunt).
cd /verif
from="$1"; to="$2"; shift 2
ids=("$@"); [ ${#ids[@]} -eq 0 ] && ids=(C01 C02 C03 C04 C05 C06 C07 C08 C09 C10 C11 C12 C13 C14 C15 C16 C17 C18 C19 C20)
bad=0
for s in $(seq "$from" "$to"); do
  for id in "${ids[@]}"; do
    out=$(VERIF_SEED=$s ./check "$id" quick 2>&1); code=$?
    if [ $code -ne 0 ]; then bad=$((bad+1)); echo "SEED $s $id exit $code"; echo "$out" | grep -A2 -m2 'VIOLATION\|INCONCLUSIVE' | cut -c1-400; fi
  done
  echo "seed $s done (bad so far: $bad)"
done
