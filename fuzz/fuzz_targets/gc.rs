#![no_main]
//! libFuzzer target for C01..C05: bytes -> history seed -> gcmodel engine (generated history
//! resolved against the reference model + drain epilogue) with the oracle of the property
//! named in SVFUZZ_PROP (default C02). Coverage guidance sees the library and the harness's
//! own classification of call classes, which steers the search towards unseen call orders.
use libfuzzer_sys::fuzz_target;
use std::sync::OnceLock;

static PROP: OnceLock<&'static str> = OnceLock::new();

fuzz_target!(|data: &[u8]| {
    let prop = *PROP.get_or_init(|| {
        std::panic::set_hook(Box::new(|_| {}));
        let p = std::env::var("SVFUZZ_PROP").unwrap_or_else(|_| "C02".to_string());
        match p.as_str() {
            "C01" => "C01",
            "C03" => "C03",
            "C04" => "C04",
            "C05" => "C05",
            _ => "C02",
        }
    });
    if let Some(f) = svcore::props::gc::fuzz_one(prop, data) {
        eprintln!("{prop} oracle failed: {}: {}", f.kind, f.detail);
        std::process::abort();
    }
});
