#![no_main]
//! libFuzzer target: bytes -> (configuration, mode, op seeds) -> the C07 engine of the
//! harness (in-domain history then one overrun that must panic / anything goes), under
//! AddressSanitizer with debug assertions (cargo-fuzz defaults). Implementation panics
//! are caught inside the engine; a failure of the semantic oracle aborts so that
//! libFuzzer saves the input.
use libfuzzer_sys::fuzz_target;
use std::sync::Once;

static HOOK: Once = Once::new();

fuzz_target!(|data: &[u8]| {
    // libfuzzer-sys installs an aborting panic hook; tolerated (caught) panics of the code
    // under test must not end the campaign, so replace it once.
    HOOK.call_once(|| std::panic::set_hook(Box::new(|_| {})));
    if let Some(f) = svcore::props::asan::fuzz_one(data) {
        eprintln!("C07 oracle failed: {}: {}", f.kind, f.detail);
        std::process::abort();
    }
});
