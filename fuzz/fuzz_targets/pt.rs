#![no_main]
//! Generic libFuzzer target: the input bytes are the random stream of proptest's
//! pass-through RNG for the main engine of the property named in SVFUZZ_PROP, i.e. the
//! same strategies and the same oracles as the generated search, now steered by coverage
//! feedback (from the library and from the harness's own case classification).
use libfuzzer_sys::fuzz_target;
use std::sync::OnceLock;

static PROP: OnceLock<String> = OnceLock::new();

fuzz_target!(|data: &[u8]| {
    let prop = PROP.get_or_init(|| {
        std::panic::set_hook(Box::new(|_| {}));
        std::env::var("SVFUZZ_PROP").unwrap_or_else(|_| "C08".to_string())
    });
    if let Some((f, case)) = svcore::registry::fuzz_bytes(prop, data) {
        eprintln!("{prop} oracle failed: {}: {}\ncase: {}", f.kind, f.detail, case.to_string().chars().take(4000).collect::<String>());
        std::process::abort();
    }
});
