#!/usr/bin/env bash
# tools_try.sh <seeded dir name> <prop> [svcheck args...]: apply a seeded patch to /repo, rebuild, run one
# sub-campaign directly (no evidence written to /verif/evidence), undo. For development only.
set -u
D=/verif/seeded/$1; P=$2; shift 2
[ -z "$(git -C /repo status --porcelain)" ] || { echo "/repo not clean"; exit 2; }
git -C /repo apply "$D/patch.diff" || exit 2
(cd /verif/harness && CARGO_NET_OFFLINE=true cargo build --profile checked 2>&1 | tail -1)
/verif/target/checked/svcheck check "$P" --tier quick --no-replays --evidence-out /tmp/ev-try.json "$@" 2>&1 | grep -A1 "^VIOLATION\|quick:" | cut -c1-420
git -C /repo checkout -- .
rm -rf /verif/replays/*/found
(cd /verif/harness && CARGO_NET_OFFLINE=true cargo build --profile checked 2>&1 | tail -1)
