#!/usr/bin/env python3
"""Promote the shortest found replay per failure kind into the committed regression corpus."""
import json, glob, os, sys
root = os.path.dirname(os.path.abspath(__file__))
for d in sorted(glob.glob(os.path.join(root, 'replays', '*', 'found'))):
    best = {}
    for f in glob.glob(os.path.join(d, '*.json')):
        v = json.load(open(f))
        k = v.get('kind', '?')
        size = len(json.dumps(v.get('payload', v.get('case'))))
        if k not in best or size < best[k][0]:
            best[k] = (size, f, v)
    for k, (_, f, v) in best.items():
        tag = sys.argv[1] if len(sys.argv) > 1 else 'r'
        out = os.path.join(os.path.dirname(d), f"{tag}-{k.replace('.', '_')}.json")
        if not os.path.exists(out):
            json.dump(v, open(out, 'w'), indent=1, ensure_ascii=False)
            print('promoted', out)
    for f in glob.glob(os.path.join(d, '*.json')):
        os.remove(f)
