#!/usr/bin/env python3
"""Prints the markdown tables of DESIGN.md §11.4/§11.5 from mutants/RESULTS.md and seeded/*/meta.json."""
import json, glob, os, re
root = os.path.dirname(os.path.abspath(__file__))
print('#### Seeded changes written by sub-agents\n')
print('| change | what it needs to manifest (from the author\'s notes) | owning quick check | first report |')
print('|---|---|---|---|')
for f in sorted(glob.glob(os.path.join(root, 'seeded', '*', 'meta.json'))):
    m = json.load(open(f))
    name = os.path.basename(os.path.dirname(f))
    notes = m.get('needs_to_manifest', '')
    # first informative line of the notes
    lines = [l.strip(' #*-') for l in notes.splitlines() if l.strip(' #*-')]
    what = ''
    for l in lines:
        if len(l) > 40 and not l.lower().startswith(('change', 'seeded', 'files', 'file')):
            what = l
            break
    what = (what or (lines[0] if lines else ''))[:200].replace('|', '/')
    runs = m['checks_run'] + m.get('rechecks', [])
    first = runs[0]
    last = runs[-1]
    if 'verdict' in m:
        res = 'not counted (outside the quantifier)'
    elif first['exit'] == 1:
        res = f"reported ({first['seconds']} s incl. rebuild)"
    elif last['exit'] == 1:
        res = f"MISSED at first, reported after the generator was strengthened (§11.6)"
    else:
        res = 'MISSED'
    fv = (last['first_violation'] or '').replace('|', '/')[:110]
    print(f"| {name} | {what} | {res} | {fv} |")
